package main

import (
	"encoding/json"
	"fmt"
	"math/rand"
	"strings"
)

// Random request histories over a small universe of buckets, names and payloads.  One generator
// serves C02 (upload/download/delete), C10 (generation laws), C15 (compose/copy), C09 (both stores
// side by side) and the history part of C04; the focus selects the operation weights.

var histBuckets = []string{"bkt", "other-bucket"}

// names representable as files (no name is a directory of another one)
var namesRepresentable = []string{"a.txt", "b", "dir/x", "dir/sub/y", "sp ace.bin", "uni-éß", "pct%41%2F", "dots..x", "q-r/s", "zz/o/file", "UPPER", "plus+eq=amp&", "bad" + badByteMarker + "utf8"}

// names that trap the listing and the filesystem mapping (memory store only)
var namesTricky = []string{"a", "a.txt", "a/b", "a/b/c", "a-b/c", "a0", "b/", "dir/o/file", "x.emumeta", "ÿþ", "a/", "a" + badByteMarker}

var payloads = [][]byte{{}, []byte("x"), []byte("hello world"), {0, 255, 0, 1, 2, 254}, []byte(strings.Repeat("0123456789abcdef", 9)), []byte("\x1f\x8b not really gzip")}

var ctypes = []string{"", "text/plain", "application/octet-stream", "text/html; charset=utf-8", "Text/Plain; charset=\"utf-8\"", "text/x-t; b=2; a=1"}

type histGen struct {
	rng     *rand.Rand
	names   []string
	focus   string
	inits   int // number of resumable inits issued so far
	pending []pendingUpload
	prog    []Req
	live    []string
}

type pendingUpload struct {
	idx     int
	bucket  string
	payload []byte
	sent    int  // bytes the generator believes the server holds
	badMd5  bool // the session declared a wrong / invalid MD5: finishing fails and the session stays alive
	retries int  // finishing attempts made on such a session
}

func (g *histGen) pick(xs []string) string { return xs[g.rng.Intn(len(xs))] }

// name: biased towards names the generator has (probably) created, so that reads, patches,
// compose sources and copies mostly hit existing objects
func (g *histGen) name() string {
	if len(g.live) > 0 && g.rng.Intn(10) < 7 {
		return g.live[g.rng.Intn(len(g.live))]
	}
	return g.pick(g.names)
}
func (g *histGen) markLive(n string) {
	for _, x := range g.live {
		if x == n {
			return
		}
	}
	g.live = append(g.live, n)
}

// nameNoSlash: a name that does not end in '/', for positions where the API appends a path
// suffix ("<name>/compose", "<name>/rewriteTo/..."): net/http.ServeMux redirects paths containing "//".
func (g *histGen) nameNoSlash() string {
	for {
		if n := g.name(); !strings.HasSuffix(n, "/") {
			return n
		}
	}
}
func (g *histGen) bucket() string {
	if g.rng.Intn(5) == 0 {
		return histBuckets[1]
	}
	return histBuckets[0]
}
func (g *histGen) payload() []byte { return payloads[g.rng.Intn(len(payloads))] }

func (g *histGen) conds(b, n string) [4]CParam {
	cp := noConds
	if g.rng.Intn(3) != 0 {
		return cp
	}
	for i := 0; i < 4; i++ {
		switch g.rng.Intn(9) {
		case 0:
			cp[i] = condValue(1, i, b, n)
		case 1:
			cp[i] = condValue(2, i, b, n)
		case 2:
			if i == 0 {
				cp[i] = Raw("0")
			}
		case 3:
			if g.rng.Intn(4) == 0 {
				cp[i] = Raw([]string{"-1", "abc", "9223372036854775808", "+5", " 7"}[g.rng.Intn(5)])
			}
		}
	}
	return cp
}

func (g *histGen) meta() [][2]string {
	var kv [][2]string
	for i := g.rng.Intn(3); i > 0; i-- {
		kv = append(kv, [2]string{[]string{"k", "type", "x-y", "k"}[g.rng.Intn(4)], []string{"v", "tabby", "", "é"}[g.rng.Intn(4)]})
	}
	return kv
}

func (g *histGen) add(r Req) {
	g.prog = append(g.prog, r)
	switch r.Kind {
	case "upload_media", "compose":
		g.markLive(r.N)
	case "upload_multipart", "resumable_init":
		g.markLive(r.Up.Name)
	case "copy":
		g.markLive(r.N2)
	}
}

func (g *histGen) upload() {
	b, n, data := g.bucket(), g.name(), g.payload()
	gz := g.rng.Intn(6) == 0
	switch g.rng.Intn(4) {
	case 0, 1:
		g.add(Req{Kind: "upload_media", B: b, N: n, CType: g.pick(ctypes), Data: data, CP: g.conds(b, n), Gzip: gz})
	case 2:
		md := 0
		switch g.rng.Intn(6) {
		case 0, 1:
			md = 1
		case 2:
			md = 2
		case 3:
			if g.rng.Intn(3) == 0 {
				md = 3
			}
		}
		g.add(Req{Kind: "upload_multipart", B: b, Up: &UpMeta{Name: n, CType: g.pick(ctypes), Md5: md, Meta: g.meta()}, Data: data, CP: g.conds(b, n), Gzip: gz})
	default:
		md := 0
		if g.rng.Intn(4) == 0 {
			md = 1 + g.rng.Intn(2)
		}
		g.add(Req{Kind: "resumable_init", B: b, Up: &UpMeta{Name: n, CType: g.pick(ctypes), Md5: md, Meta: g.meta()}, Data: data, CP: g.conds(b, n)})
		g.pending = append(g.pending, pendingUpload{idx: g.inits, bucket: b, payload: data, badMd5: md == 2 || md == 3})
		g.inits++
		// usually continue the session right away
		for k := g.rng.Intn(4); k > 0 && len(g.pending) > 0; k-- {
			g.resume()
		}
	}
}

// resume issues one PUT of a pending session: next chunk, a re-sent / overlapping range, a status
// query, the finalising request, or (rarely) a malformed one.
// finished: the session's last byte was sent.  A session that declared a wrong MD5 is refused at
// that point and stays alive on the server: it is kept for a few more finishing attempts (re-sent
// final range, status query), each of which must be refused again.
func (g *histGen) finished(pi int) {
	p := &g.pending[pi]
	if p.badMd5 && p.retries < 3 {
		p.retries++
		return
	}
	g.pending = append(g.pending[:pi], g.pending[pi+1:]...)
}

func (g *histGen) resume() {
	if len(g.pending) == 0 {
		return
	}
	pi := g.rng.Intn(len(g.pending))
	p := &g.pending[pi]
	total := len(p.payload)
	id := fmt.Sprintf("#%d", p.idx)
	hdr := func(lo, hi int, tot string) *string {
		s := fmt.Sprintf("bytes %d-%d/%s", lo, hi, tot)
		return &s
	}
	tot := "*"
	if g.rng.Intn(2) == 0 {
		tot = fmt.Sprint(total)
	}
	switch c := g.rng.Intn(12); {
	case c < 5 && p.sent < total: // next chunk
		n := 1 + g.rng.Intn(total-p.sent)
		last := p.sent+n == total
		if last {
			tot = fmt.Sprint(total)
		}
		g.add(Req{Kind: "resumable_put", B: p.bucket, ID: id, CRange: hdr(p.sent, p.sent+n-1, tot), Data: p.payload[p.sent : p.sent+n]})
		p.sent += n
		if last {
			g.finished(pi)
		}
	case c < 7 && p.sent > 0: // re-send a range that starts at or before what is held
		lo := g.rng.Intn(p.sent)
		n := 1 + g.rng.Intn(total-lo)
		last := lo+n == total
		if last {
			tot = fmt.Sprint(total)
		}
		g.add(Req{Kind: "resumable_put", B: p.bucket, ID: id, CRange: hdr(lo, lo+n-1, tot), Data: p.payload[lo : lo+n]})
		p.sent = lo + n
		if last {
			g.finished(pi)
		}
	case c < 9: // status query / finalise with empty body
		s := "bytes */*"
		if g.rng.Intn(2) == 0 {
			s = fmt.Sprintf("bytes */%d", total)
			if p.sent >= total {
				g.finished(pi)
			}
		}
		g.add(Req{Kind: "resumable_put", B: p.bucket, ID: id, CRange: &s})
	case c < 10: // malformed
		bad := []string{"", "bytes", "bytes 0-1", "bytes a-b/c", "bytes 5-2/10", "octets 0-1/2", "bytes 0-0/0/0", "bytes -1-3/4", "bytes 0-9223372036854775807/*", "bytes 99999-100000/*"}[g.rng.Intn(10)]
		var cr *string
		if bad != "" {
			cr = &bad
		}
		g.add(Req{Kind: "resumable_put", B: p.bucket, ID: id, CRange: cr, Data: []byte("zz")})
	case c < 11: // gap: starts beyond what is held
		if p.sent+2 <= total {
			g.add(Req{Kind: "resumable_put", B: p.bucket, ID: id, CRange: hdr(p.sent+1, p.sent+1, "*"), Data: p.payload[p.sent+1 : p.sent+2]})
		}
	default: // unknown id
		s := "bytes */*"
		g.add(Req{Kind: "resumable_put", B: p.bucket, ID: "424242", CRange: &s})
	}
}

func (g *histGen) read() {
	b, n := g.bucket(), g.name()
	switch g.rng.Intn(5) {
	case 0:
		g.add(Req{Kind: "get_meta", B: b, N: n})
	case 1:
		g.add(Req{Kind: "get_media", B: b, N: n, UrlForm: "download"})
	case 2:
		g.add(Req{Kind: "get_media", B: b, N: n, UrlForm: "public"})
	case 3:
		g.add(Req{Kind: "get_media", B: b, N: n, UrlForm: "b"})
	default:
		g.add(Req{Kind: "get_media", B: b, N: n})
	}
}

func (g *histGen) patch() {
	b, n := g.bucket(), g.name()
	p := &Patch{}
	if g.rng.Intn(2) == 0 {
		ct := g.pick(ctypes[1:])
		p.CType = &ct
	}
	if g.rng.Intn(2) == 0 {
		p.HasMeta = true
		p.Meta = g.meta()
	}
	if g.rng.Intn(6) == 0 {
		v := int64(424242)
		p.Gen = &v
	}
	if g.rng.Intn(6) == 0 {
		s := "AAAAAAAAAAAAAAAAAAAAAA=="
		p.Md5 = &s
	}
	if g.rng.Intn(6) == 0 {
		v := int64(1 + g.rng.Intn(3))
		p.Metagen = &v
	}
	if g.rng.Intn(5) == 0 {
		other := g.name() // the name of (probably) another existing object, as when a resource is reused as template
		p.Name = &other
	}
	if g.rng.Intn(8) == 0 {
		ob := histBuckets[g.rng.Intn(len(histBuckets))]
		p.Bucket = &ob
	}
	if g.rng.Intn(8) == 0 {
		sz := int64(g.rng.Intn(3) * 7)
		p.Size = &sz
	}
	if g.rng.Intn(10) == 0 {
		p.Bad = true
	}
	g.add(Req{Kind: "patch", B: b, N: n, Patch: p, CP: g.conds(b, n)})
}

func (g *histGen) list() {
	b := g.bucket()
	if g.rng.Intn(25) == 0 {
		b = "no-such-bucket"
	}
	r := Req{Kind: "list", B: b}
	if g.rng.Intn(2) == 0 {
		r.Prefix = []string{"a", "dir/", "d", "a/", "zz", "q"}[g.rng.Intn(6)]
	}
	if g.rng.Intn(3) == 0 && g.focus != "nodelim" {
		r.Delim = []string{"/", "-", "//", "b/"}[g.rng.Intn(4)]
	}
	if g.rng.Intn(2) == 0 {
		m := []string{"1", "2", "3", "1000", "0", "-1", "x"}[g.rng.Intn(7)]
		r.MaxRes = &m
	}
	if g.rng.Intn(4) == 0 {
		c := g.name()
		r.Cursor = &c
	}
	if g.rng.Intn(30) == 0 {
		r = Req{Kind: "list_bad_token", B: b}
	}
	g.add(r)
}

func (g *histGen) compose() {
	b := g.bucket()
	n := g.rng.Intn(4)
	if g.rng.Intn(12) == 0 {
		n = 31 + g.rng.Intn(3)
	}
	var srcs []Src
	for i := 0; i < n; i++ {
		s := Src{Name: g.name(), Cond: Raw("")}
		if g.rng.Intn(5) == 0 {
			s.Cond = condValue(1+g.rng.Intn(2), 0, b, s.Name)
		}
		srcs = append(srcs, s)
	}
	dst := g.nameNoSlash()
	if len(srcs) > 0 && g.rng.Intn(4) == 0 {
		if d := srcs[g.rng.Intn(len(srcs))].Name; !strings.HasSuffix(d, "/") {
			dst = d // destination among the sources
		}
	}
	r := Req{Kind: "compose", B: b, N: dst, Srcs: srcs, CP: g.conds(b, dst)}
	if g.rng.Intn(5) != 0 {
		r.Up = &UpMeta{CType: g.pick(ctypes), Meta: g.meta()}
	}
	if g.rng.Intn(20) == 0 {
		r.Bad = true
	}
	g.add(r)
}

func (g *histGen) copy() {
	r := Req{Kind: "copy", B: g.bucket(), N: g.nameNoSlash(), B2: g.bucket(), N2: g.name()}
	if g.rng.Intn(6) == 0 {
		r.B2, r.N2 = r.B, r.N // rewrite in place
	}
	if g.rng.Intn(3) == 0 { // the request carries a destination resource (the emulator does not rewrite metadata on copy)
		r.Up = &UpMeta{CType: g.pick(ctypes[1:])}
		if g.rng.Intn(2) == 0 {
			r.Up.Meta = [][2]string{{"copied", "yes"}}
		}
	}
	g.add(r)
}

func (g *histGen) del() {
	b, n := g.bucket(), g.name()
	g.add(Req{Kind: "delete", B: b, N: n, CP: g.conds(b, n)})
}

func (g *histGen) bucketOp() {
	switch g.rng.Intn(4) {
	case 0:
		g.add(Req{Kind: "create_bucket", B: g.pick(append(histBuckets, "fresh"))})
	case 1:
		g.add(Req{Kind: "get_bucket", B: g.pick(append(histBuckets, "no-such-bucket"))})
	case 2:
		if g.rng.Intn(4) == 0 {
			g.add(Req{Kind: "delete_bucket", B: g.pick(append(histBuckets, "no-such-bucket")), CP: noConds})
		}
	default:
		g.add(Req{Kind: "get_bucket", B: g.bucket()})
	}
}

var focusWeights = map[string][9]int{
	//           upload resume read patch list compose copy delete bucket
	"C02":     {30, 18, 30, 3, 5, 1, 2, 9, 2},
	"C10":     {22, 6, 22, 22, 8, 5, 5, 8, 2},
	"C15":     {22, 4, 20, 5, 4, 22, 16, 6, 1},
	"C04":     {25, 8, 18, 20, 2, 10, 2, 14, 1},
	"C09":     {22, 8, 22, 12, 12, 8, 8, 7, 1},
	"nodelim": {25, 2, 5, 3, 50, 3, 3, 8, 1},
	"C11":     {25, 2, 5, 3, 50, 3, 3, 8, 1},
}

func genHistory(rng *rand.Rand, focus string, names []string, length int) []Req {
	g := &histGen{rng: rng, names: names, focus: focus}
	w := focusWeights[focus]
	total := 0
	for _, x := range w {
		total += x
	}
	// start with a few objects so that reads are not all 404
	for i := 0; i < 2+rng.Intn(3); i++ {
		g.upload()
	}
	for len(g.prog) < length {
		x := rng.Intn(total)
		k := 0
		for x >= w[k] {
			x -= w[k]
			k++
		}
		switch k {
		case 0:
			g.upload()
		case 1:
			g.resume()
		case 2:
			g.read()
		case 3:
			g.patch()
		case 4:
			g.list()
		case 5:
			g.compose()
		case 6:
			g.copy()
		case 7:
			g.del()
		default:
			g.bucketOp()
		}
	}
	// final sweep: metadata and media of every name in the main bucket
	for _, n := range names {
		g.add(Req{Kind: "get_meta", B: histBuckets[0], N: n})
		g.add(Req{Kind: "get_media", B: histBuckets[0], N: n})
	}
	g.add(Req{Kind: "list", B: histBuckets[0]})
	return g.prog
}

func histNontrivial(c Case) bool {
	okWrite, okRead := false, false
	for i, r := range c.Prog {
		st := c.Obs[i].Status
		if strings.HasPrefix(r.Kind, "upload") || r.Kind == "compose" || r.Kind == "copy" || r.Kind == "resumable_put" {
			if st == 200 {
				okWrite = true
			}
		}
		if r.Kind == "get_media" && st == 200 && len(c.Obs[i].Data) > 0 {
			okRead = true
		}
	}
	return okWrite && okRead
}

func genHist(prop, out, tier string, rng *rand.Rand, oracle string) {
	sink := NewSink(out, gcsPrelude, "(list req * list resp)", "check_all", 60)
	sink.oracle = oracle
	n, length := 300, 30
	if tier == "thorough" {
		n, length = 4000, 50
	}
	var tasks []Task
	for i := 0; i < n; i++ {
		prog := genHistory(rng, prop, namesRepresentable, length)
		for _, mk := range stores() {
			tasks = append(tasks, Task{mk, "repr", prog, true})
		}
		if i%3 == 0 { // memory store only: names that are not representable as files
			prog2 := genHistory(rng, prop, namesTricky, length)
			tasks = append(tasks, Task{stores()[0], "tricky", prog2, true})
		}
	}
	if prop == "C15" {
		progs := sameSizePrograms()
		for _, prog := range progs {
			for _, mk := range stores() {
				tasks = append(tasks, Task{mk, "same-size", prog, true})
			}
		}
	}
	if prop == "C02" || prop == "C11" {
		// directed: uploads that carry no object name (every protocol), then listings and a normal upload
		noName := []Req{
			{Kind: "upload_media", B: "bkt", N: "a", CType: "text/plain", Data: []byte("A"), CP: noConds},
			{Kind: "upload_multipart", B: "bkt", Up: &UpMeta{Name: "", CType: "text/plain"}, Data: []byte("x"), CP: noConds},
			{Kind: "resumable_init", B: "bkt", Up: &UpMeta{Name: "", CType: "text/plain"}, CP: noConds},
			{Kind: "upload_media", B: "bkt", N: "", CType: "text/plain", Data: []byte("y"), CP: noConds},
			{Kind: "copy", B: "bkt", N: "a", B2: "bkt", N2: ""},
			{Kind: "list", B: "bkt", CP: noConds},
			{Kind: "upload_multipart", B: "bkt", Up: &UpMeta{Name: "b", CType: "text/plain"}, Data: []byte("B"), CP: noConds},
			{Kind: "list", B: "bkt", CP: noConds},
			{Kind: "get_media", B: "bkt", N: "b"},
		}
		for _, mk := range stores() {
			tasks = append(tasks, Task{mk, "no-name", noName, true})
		}
		// directed: names that exist only as directories of the file store are absent objects: reading,
		// patching and deleting them answers 404 and touches nothing below them
		upn := func(n, d string) Req {
			return Req{Kind: "upload_media", B: "bkt", N: n, CType: "text/plain", Data: []byte(d), CP: noConds}
		}
		rdn := func(n string) Req { return Req{Kind: "get_media", B: "bkt", N: n} }
		dirProg := []Req{upn("reports/q2", "x"), upn("reports/2023/q1", "y"), {Kind: "get_meta", B: "bkt", N: "reports"}, rdn("reports"),
			{Kind: "patch", B: "bkt", N: "reports", Patch: &Patch{HasMeta: true, Meta: [][2]string{{"k", "v"}}}, CP: noConds},
			{Kind: "delete", B: "bkt", N: "reports", CP: noConds}, {Kind: "delete", B: "bkt", N: "reports/2023", CP: noConds}, rdn("reports/q2"), rdn("reports/2023/q1"), {Kind: "list", B: "bkt"}}
		for _, mk := range stores() {
			tasks = append(tasks, Task{mk, "directory-names", dirProg, true})
		}
		// directed: a resumable upload whose declared MD5 does not match is refused at its last byte, and
		// again at every further attempt to finish the same session; the previous object stays
		for _, md := range []int{2, 3} {
			pay := []byte("new-content")
			whole := fmt.Sprintf("bytes 0-%d/%d", len(pay)-1, len(pay))
			tail := fmt.Sprintf("bytes 4-%d/%d", len(pay)-1, len(pay))
			status := fmt.Sprintf("bytes */%d", len(pay))
			prog := []Req{
				{Kind: "upload_media", B: "bkt", N: "obj", CType: "text/plain", Data: []byte("old"), CP: noConds},
				{Kind: "resumable_init", B: "bkt", Up: &UpMeta{Name: "obj", CType: "text/new", Md5: md}, Data: []byte("declared-for-other-bytes"), CP: noConds},
				{Kind: "resumable_put", B: "bkt", ID: "#0", CRange: &whole, Data: pay},
				{Kind: "get_media", B: "bkt", N: "obj"},
				{Kind: "resumable_put", B: "bkt", ID: "#0", CRange: &tail, Data: pay[4:]},
				{Kind: "resumable_put", B: "bkt", ID: "#0", CRange: &status},
				{Kind: "resumable_put", B: "bkt", ID: "#0", CRange: &whole, Data: pay},
				{Kind: "get_media", B: "bkt", N: "obj"},
				{Kind: "get_meta", B: "bkt", N: "obj"},
			}
			for _, mk := range stores() {
				tasks = append(tasks, Task{mk, "bad-md5-retry", prog, true})
			}
		}
	}
	if prop == "C02" {
		for _, mk := range stores() {
			tasks = append(tasks, Task{mk, "big-payloads", bigPayloadProgram(), true})
		}
	}
	if prop == "C02" || prop == "C10" {
		for _, prog := range siblingPrograms() {
			for _, mk := range stores() {
				tasks = append(tasks, Task{mk, "sibling-names", prog, true})
			}
		}
	}
	if prop == "C10" {
		// directed: rewrite requests that carry a destination resource, onto a new and onto an existing
		// (patched) name, then the four places that report the numbers
		ct := "text/patched"
		upn := func(n, d string) Req {
			return Req{Kind: "upload_media", B: "bkt", N: n, CType: "text/plain", Data: []byte(d), CP: noConds}
		}
		see := func(n string) []Req {
			return []Req{{Kind: "get_meta", B: "bkt", N: n}, {Kind: "get_media", B: "bkt", N: n}, {Kind: "list", B: "bkt"}}
		}
		for _, up := range []*UpMeta{{CType: "text/x"}, {Meta: [][2]string{{"k", "v"}}}, {CType: "text/y", Meta: [][2]string{{"k", "v"}, {"l", "w"}}}, {}} {
			prog := []Req{upn("src", "SRC"), upn("old", "OLD"), {Kind: "patch", B: "bkt", N: "old", Patch: &Patch{CType: &ct}, CP: noConds},
				{Kind: "copy", B: "bkt", N: "src", B2: "bkt", N2: "new", Up: up}}
			prog = append(prog, see("new")...)
			prog = append(prog, Req{Kind: "copy", B: "bkt", N: "src", B2: "bkt", N2: "old", Up: up})
			prog = append(prog, see("old")...)
			prog = append(prog, Req{Kind: "copy", B: "bkt", N: "src", B2: "bkt", N2: "src", Up: up})
			prog = append(prog, see("src")...)
			for _, mk := range stores() {
				tasks = append(tasks, Task{mk, "copy-with-resource", prog, true})
			}
		}
	}
	RunTasksNT(sink, tasks, histNontrivial)
	if prop == "C10" {
		// every patch is one atomic step: all interleavings (at the yield point between precondition
		// check and store mutation) of a metadata patch with a second patch, a content write or a
		// delete of the same object, compared step by step with the interleaving model
		ctA, ctB := "text/pa", "text/pb"
		patchA := Req{Kind: "patch", B: c07B, N: "obj", Patch: &Patch{CType: &ctA, HasMeta: true, Meta: [][2]string{{"a", "1"}}}, CP: noConds}
		patchB := Req{Kind: "patch", B: c07B, N: "obj", Patch: &Patch{CType: &ctB, HasMeta: true, Meta: [][2]string{{"b", "2"}}}, CP: noConds}
		addObjectInterleavings(sink, patchA, 2, &patchB, []int{0, 1, 3, 4, 6}, "patch-atomic")
	}
	if prop == "C15" {
		// compose and copy are one atomic step each: all interleavings of a compose whose destination is
		// among its sources (the append idiom), and of a copy onto the object, with a second compose, an
		// upload, a delete, a copy or an upload of a compose source
		comp, _ := c07Request(5, 1)
		cpy, _ := c07Request(6, 1)
		addObjectInterleavings(sink, comp, 2, nil, []int{0, 4, 5, 6, 9}, "compose-atomic")
		addObjectInterleavings(sink, cpy, 2, nil, []int{0, 4, 5}, "copy-atomic")
	}
	if prop == "C02" {
		genUrls(sink, tier, rng) // URL forms against the model of the four unanchored patterns
		addFsPathCases(sink)     // the file store's (bucket, name) -> files mapping against GCS/FsPaths.v
	}
	sink.Close(fmt.Sprintf("(C15 additionally: every interleaving of a compose with its destination among its sources, and of a copy, with a second writer of the object; C10 additionally: every interleaving of a metadata patch with a second patch, a content write, a delete or a copy onto the same object at the yield point between precondition check and store mutation, both stores, compared step by step with the interleaving model; C02/C11 additionally: uploads, compose and copy without an object name, a resumable session with a wrong declared MD5 finished several times; C02 additionally: decoded request paths - every URL form x bucket x name from pools with traps, plus random fragment concatenations - parsed by the real ParseGcsUrl and compared with the Coq model of the four unanchored patterns; and the round trip of the public form for every (bucket, name) pair; and the files the file store's Add creates in an empty store (listed through the OS, store root nested so that escapes are seen) for every name over {a . /} up to length 5, a pool of traps with and without the sidecar extension, and degenerate bucket names, against GCS/FsPaths.v) random histories (focus %s) of about %d requests over 2 buckets x %d names x %d payloads, all upload protocols with random chunkings, re-sent ranges, status queries, gzip bodies, wrong/invalid MD5, the three download URL forms, patches incl. read-only fields, listings, compose, copy, deletes, conditions; each program runs on the memory and the file store (names representable as files) and, one in three, on the memory store with trap names; distinct = distinct canonical (program, observation) text; non-trivial = at least one successful content write and one non-empty successful download", prop, length, len(namesRepresentable), len(payloads)), false)
}

// bigPayloadProgram: payloads of 9 000 bytes through every upload protocol (the resumable one in three
// chunks), read back, composed (18 000 bytes), copied and listed (Coq's parser overflows its stack on
// list literals of about 40 000 numbers, which bounds the payloads a case can carry)
func bigPayloadProgram() []Req {
	big := make([]byte, 9000)
	for i := range big {
		big[i] = byte(i*7 + i/251)
	}
	cr := func(lo, hi int) *string {
		s := fmt.Sprintf("bytes %d-%d/%d", lo, hi-1, len(big))
		return &s
	}
	see := func(n string) []Req {
		return []Req{{Kind: "get_media", B: "bkt", N: n}, {Kind: "get_meta", B: "bkt", N: n}}
	}
	prog := []Req{
		{Kind: "upload_media", B: "bkt", N: "big-m", CType: "application/octet-stream", Data: big, CP: noConds},
		{Kind: "upload_multipart", B: "bkt", Up: &UpMeta{Name: "big-p", CType: "application/octet-stream", Md5: 1}, Data: big, CP: noConds},
		{Kind: "resumable_init", B: "bkt", Up: &UpMeta{Name: "big-r", CType: "application/octet-stream"}, CP: noConds},
		{Kind: "resumable_put", B: "bkt", ID: "#0", CRange: cr(0, 4096), Data: big[:4096]},
		{Kind: "resumable_put", B: "bkt", ID: "#0", CRange: cr(4096, 8192), Data: big[4096:8192]},
		{Kind: "resumable_put", B: "bkt", ID: "#0", CRange: cr(8192, 9000), Data: big[8192:]},
	}
	prog = append(prog, see("big-m")...)
	prog = append(prog, see("big-p")...)
	prog = append(prog, see("big-r")...)
	prog = append(prog, Req{Kind: "compose", B: "bkt", N: "big-c", Srcs: []Src{{Name: "big-m", Cond: Raw("")}, {Name: "big-r", Cond: Raw("")}}, Up: &UpMeta{CType: "x/composed"}, CP: noConds})
	prog = append(prog, see("big-c")...)
	prog = append(prog, Req{Kind: "copy", B: "bkt", N: "big-c", B2: "bkt", N2: "big-c2"})
	prog = append(prog, see("big-c2")...)
	prog = append(prog, Req{Kind: "list", B: "bkt"})
	return prog
}

// siblingPrograms: an object whose name differs from a written name only by an ending that file-handling
// code likes to give its own files (.tmp, ~, .new, .lock, .part, .bak, the sidecar extension inside the
// name) is an object of its own: writing, patching, copying onto, composing and deleting the plain
// name leaves it, its metadata and its place in the listing alone
func siblingPrograms() [][]Req {
	decor := []string{".tmp", ".emumeta.tmp", ".tmp.tmp", "~", ".new", ".part", ".bak", ".lock", ".swp", ".old", ".1", ".emumeta.bak", ".meta", ".json", ".tmp.emumeta.tmp"}
	var progs [][]Req
	for _, base := range []string{"report", "dl/archive.tar"} {
		up := func(n, d string) Req {
			return Req{Kind: "upload_multipart", B: "bkt", Up: &UpMeta{Name: n, CType: "text/" + fmt.Sprint(len(n)), Md5: 1, Meta: [][2]string{{"name", n}}}, Data: []byte(d), CP: noConds}
		}
		ct := "text/patched"
		patch := func(n string) Req {
			return Req{Kind: "patch", B: "bkt", N: n, Patch: &Patch{CType: &ct, HasMeta: true, Meta: [][2]string{{"p", "1"}}}, CP: noConds}
		}
		var seed, look []Req
		for _, d := range decor {
			seed = append(seed, up(base+d, "sibling "+d))
			look = append(look, Req{Kind: "get_meta", B: "bkt", N: base + d}, Req{Kind: "get_media", B: "bkt", N: base + d})
		}
		dir := ""
		if i := strings.LastIndex(base, "/"); i >= 0 {
			dir = base[:i+1]
		}
		seed = append(seed, up(dir+"."+base[len(dir):]+".tmp", "dot sibling"), up(dir+"tmp", "tmp itself"))
		look = append(look, Req{Kind: "get_meta", B: "bkt", N: dir + "." + base[len(dir):] + ".tmp"}, Req{Kind: "get_meta", B: "bkt", N: dir + "tmp"}, Req{Kind: "list", B: "bkt"})
		// writes of the plain name, each followed by a look at every sibling
		writes := [][]Req{
			{up(base, "first")},
			{up(base, "second, longer"), patch(base)},
			{{Kind: "copy", B: "bkt", N: base + ".bak", B2: "bkt", N2: base}},
			{{Kind: "compose", B: "bkt", N: base, Srcs: []Src{{Name: base + ".part", Cond: Raw("")}, {Name: base + ".1", Cond: Raw("")}}, Up: &UpMeta{CType: "x/composed"}, CP: noConds}, patch(base)},
			{{Kind: "delete", B: "bkt", N: base, CP: noConds}},
		}
		for _, w := range writes {
			prog := append(append(append([]Req{}, seed...), w...), look...)
			prog = append(prog, Req{Kind: "get_meta", B: "bkt", N: base}, Req{Kind: "get_media", B: "bkt", N: base})
			progs = append(progs, prog)
		}
		// and the other way round: writing the siblings leaves the plain name alone
		prog := []Req{up(base, "plain"), patch(base)}
		prog = append(prog, seed...)
		for _, d := range decor[:4] {
			prog = append(prog, patch(base+d), Req{Kind: "delete", B: "bkt", N: base + d, CP: noConds})
		}
		prog = append(prog, Req{Kind: "get_meta", B: "bkt", N: base}, Req{Kind: "get_media", B: "bkt", N: base}, Req{Kind: "list", B: "bkt"})
		progs = append(progs, prog)
	}
	return progs
}

// sameSizePrograms: copies and composes between objects of EQUAL size (with and without MD5), onto
// existing destinations, and recomposes of one destination from different sources of equal length
func sameSizePrograms() [][]Req {
	// directed: copies and composes between objects of EQUAL size (with and without MD5), onto existing destinations
	up := func(n, d string) Req {
		return Req{Kind: "upload_media", B: "bkt", N: n, CType: "text/plain", Data: []byte(d), CP: noConds}
	}
	comp := func(dst string, srcs ...string) Req {
		r := Req{Kind: "compose", B: "bkt", N: dst, Up: &UpMeta{CType: "x/composed"}, CP: noConds}
		for _, s := range srcs {
			r.Srcs = append(r.Srcs, Src{Name: s, Cond: Raw("")})
		}
		return r
	}
	cp := func(a, b string) Req { return Req{Kind: "copy", B: "bkt", N: a, B2: "bkt", N2: b} }
	get := func(n string) []Req {
		return []Req{{Kind: "get_media", B: "bkt", N: n}, {Kind: "get_meta", B: "bkt", N: n}}
	}
	progs := [][]Req{
		append(append([]Req{up("a", "AAAA"), up("b", "BBBB"), comp("x", "a", "b"), comp("y", "b", "a"), cp("x", "y")}, get("y")...), get("x")...),
		append(append([]Req{up("a", "AAAA"), up("b", "BBBB"), cp("a", "b")}, get("b")...), get("a")...),
		append(append([]Req{up("a", "AAAA"), up("b", "BBBB"), comp("x", "a", "b"), up("y", "12345678"), cp("x", "y"), cp("y", "x")}, get("y")...), get("x")...),
		append([]Req{up("a", "AAAA"), up("b", "BBBB"), comp("x", "a", "b"), comp("y", "b", "a"), comp("z", "x", "y"), comp("x", "y", "y"), cp("x", "z"), cp("z", "z")}, append(get("z"), get("x")...)...),
		append([]Req{up("a", ""), up("b", ""), comp("x", "a", "b"), comp("y", "a"), cp("x", "y"), cp("x", "a")}, append(get("y"), get("a")...)...),
	}
	progs = append(progs,
		append([]Req{up("a", "AAAA"), up("b", "BBBB"), up("c", "CCCC"), comp("d", "a", "b"), comp("d", "a", "c")}, append(get("d"), Req{Kind: "list", B: "bkt"})...),
		append([]Req{up("a", "AAAA"), up("b", "BBBB"), comp("x", "a", "b"), comp("y", "b", "a"), cp("y", "x")}, append(get("x"), get("y")...)...),
		append([]Req{up("a", "AAAA"), up("b", "BBBB"), comp("x", "a"), comp("x", "b")}, get("x")...))
	// composites that share their first source: composing [a, c] afterwards leaves the earlier [a, b] alone
	// (successful, and refused on a missing later source), whichever was made first and whatever the sizes
	for _, first := range []string{"AAAA", "A", strings.Repeat("A", 70)} {
		progs = append(progs,
			append([]Req{up("a", first), up("b", "BBBB"), up("c", "cc"), comp("x", "a", "b")}, append(get("x"),
				append([]Req{comp("y", "a", "c")}, append(append(get("x"), get("y")...),
					append([]Req{comp("z", "a", "missing"), comp("w", "a", "c", "b")}, append(append(get("x"), get("y")...), get("w")...)...)...)...)...)...))
	}
	progs = append(progs, bigPayloadProgram())
	return progs
}

// addObjectInterleavings runs every interleaving of [own] with each of the given request kinds of the
// C07 generator (and with [twin], if any) on one object, on both stores, against the interleaving model.
func addObjectInterleavings(sink *Sink, own Req, ownSteps int, twin *Req, kinds []int, tag string) {
	final := []Req{{Kind: "get_meta", B: c07B, N: "obj"}, {Kind: "get_media", B: c07B, N: "obj"}, {Kind: "list", B: c07B}}
	type job struct {
		mk      storeMaker
		threads [][]Req
		sched   []int
		tag     string
	}
	var jobs []job
	for _, mk := range stores() {
		type other struct {
			r Req
			n int
			k int
		}
		var others []other
		if twin != nil {
			others = append(others, other{*twin, ownSteps, -1})
		}
		for _, k := range kinds {
			r, n := c07Request(k, 2)
			others = append(others, other{r, n, k})
		}
		for _, o := range others {
			for _, sch := range interleavings(ownSteps, o.n) {
				jobs = append(jobs, job{mk, [][]Req{{own}, {o.r}}, sch, fmt.Sprintf("%s-%d", tag, o.k)})
			}
			for _, sch := range interleavings(o.n, ownSteps) {
				jobs = append(jobs, job{mk, [][]Req{{o.r}, {own}}, sch, fmt.Sprintf("%s-%d", tag, o.k)})
			}
		}
	}
	results := make([]*GConcCase, len(jobs))
	parallel(len(jobs), func(i int) {
		results[i] = runGConc(jobs[i].mk, c07Setup(), jobs[i].threads, jobs[i].sched, final, jobs[i].tag)
	})
	for _, c := range results {
		if c == nil {
			sink.stats.Skipped++
			continue
		}
		js, _ := json.Marshal(c)
		sink.AddPreV("conc", "check_gconc", "gcase", c.pseudo(), c.coq(), js, true)
	}
}

package main

import (
	"bufio"
	"bytes"
	"encoding/json"
	"fmt"
	"github.com/fullstorydev/emulators/storage/gcsemu"
	"io"
	"math/rand"
	"mime"
	"mime/multipart"
	"net/http"
	"net/http/httptest"
	"net/textproto"
	"os"
	"os/exec"
	"path/filepath"
	"strings"
	"sync"
	"time"
)

// C20 (GCS half): structured perturbations of valid requests at the HTTP level.  There is no Layer A
// model for raw HTTP parsing (library code); every case is judged by the Layer B oracle alone:
// the handler returns (no panic, no hang), the status is a valid HTTP status, an error answer
// carries the JSON error envelope, a batch answers one sub-response per part equal to the
// stand-alone answer, and afterwards the seeded objects are served unchanged.

type rawReq struct {
	Method  string            `json:"method"`
	URL     string            `json:"url"`
	Headers map[string]string `json:"headers,omitempty"`
	Body    []byte            `json:"body,omitempty"`
}

type rawCase struct {
	Store string   `json:"store"`
	Req   rawReq   `json:"req"`
	St    int      `json:"status"`
	Notes []string `json:"notes,omitempty"`
	Panic string   `json:"panic,omitempty"`
}

func (e *Emu) doRaw(r rawReq) (rec *httptest.ResponseRecorder, panicked string, hung bool) {
	done := make(chan struct{})
	go func() {
		defer close(done)
		defer func() {
			if p := recover(); p != nil {
				panicked = fmt.Sprint(p)
			}
		}()
		req, err := http.NewRequest(r.Method, r.URL, bytes.NewReader(r.Body))
		if err != nil {
			// not even representable as a request: the HTTP server would reject it before the handler
			rec = httptest.NewRecorder()
			rec.WriteHeader(400)
			rec.Body.WriteString(`{"error":{"code":400}}`)
			return
		}
		req.RequestURI = ""
		for k, v := range r.Headers {
			req.Header.Set(k, v)
		}
		if h, ok := r.Headers["Host"]; ok {
			req.Host = h
		}
		rec = httptest.NewRecorder()
		e.mux.ServeHTTP(rec, req)
	}()
	select {
	case <-done:
		return rec, panicked, false
	case <-time.After(10 * time.Second):
		return nil, "", true
	}
}

var c20Seeds = []Req{
	{Kind: "upload_media", B: "bkt", N: "keep/a.txt", CType: "text/plain", Data: []byte("alpha"), CP: noConds},
	{Kind: "upload_media", B: "bkt", N: "keep/b.bin", CType: "application/octet-stream", Data: []byte{0, 1, 2, 255}, CP: noConds},
	{Kind: "upload_multipart", B: "other-bucket", Up: &UpMeta{Name: "z", CType: "text/z", Md5: 1, Meta: [][2]string{{"k", "v"}}}, Data: []byte("zed"), CP: noConds},
}

func c20Probe(e *Emu) string {
	var sb strings.Builder
	for _, p := range [][2]string{{"bkt", "keep/a.txt"}, {"bkt", "keep/b.bin"}, {"other-bucket", "z"}} {
		m := e.rawMeta(p[0], p[1])
		d, ok := e.rawMedia(p[0], p[1])
		if m == nil || !ok {
			fmt.Fprintf(&sb, "%s/%s MISSING;", p[0], p[1])
			continue
		}
		fmt.Fprintf(&sb, "%s/%s gen=%d mg=%d md5=%s ct=%s meta=%v data=%x;", p[0], p[1], m.Generation, m.Metageneration, m.Md5Hash, m.ContentType, m.Metadata, d)
	}
	return sb.String()
}

func multipartBody(parts ...[2]string) (string, []byte) {
	var buf bytes.Buffer
	mw := multipart.NewWriter(&buf)
	for _, p := range parts {
		h := textproto.MIMEHeader{}
		h.Set("Content-Type", p[0])
		pw, _ := mw.CreatePart(h)
		_, _ = pw.Write([]byte(p[1]))
	}
	_ = mw.Close()
	return mw.Boundary(), buf.Bytes()
}

// c20Requests builds the perturbed requests; targets never name the seeded objects' exact URLs with
// a mutating method, so the seeds must survive every case.
func c20Requests(rng *rand.Rand, n int) []rawReq {
	base := "http://emu"
	paths := []string{"/storage/v1/b/bkt/o/victim", "/storage/v1/b/bkt/o", "/storage/v1/b/bkt", "/storage/v1/b", "/upload/storage/v1/b/bkt/o",
		"/b/bkt/o/victim", "/bkt/victim", "/", "/storage/v1/b//o/x", "/storage/v1/b/bkt/o/victim/compose", "/storage/v1/b/bkt/o/victim/rewriteTo/b/bkt/o/victim2",
		"/storage/v1/b/bkt/o/victim/rewriteTo/b/bkt", "/storage/v1/b/bkt/o/victim/rewriteTo/b/bkt/o/victim", "/storage/v1/b/bkt/o/keep%2Fa.txt/rewriteTo/b/bkt/o/victim", "/storage/v1/b/bkt/o/victim/rewriteTo/", "/storage/v1/b/bkt/o/a/compose/b/compose", "/download/storage/v1/b/bkt/o/victim",
		"/storage/v1/b/no-such/o/x", "/storage/v1/b/bkt/o/%00", "/storage/v1/b/bkt/o/..%2F..%2Fetc", "/storage/v1/b/bkt/o/" + strings.Repeat("n", 300), "/storage/v1/x", "/batch/storage/v1"}
	methods := []string{"GET", "POST", "PUT", "PATCH", "DELETE", "HEAD", "OPTIONS", "TRACE"}
	qkeys := []string{"uploadType", "name", "upload_id", "alt", "prefix", "delimiter", "pageToken", "maxResults", "ifGenerationMatch", "ifGenerationNotMatch", "ifMetagenerationMatch", "ifMetagenerationNotMatch"}
	qvals := []string{"", "media", "multipart", "resumable", "json", "victim", "1", "0", "-1", "9223372036854775808", "abc", "%zz", "a;b", "999999", "bm90LWEtdG9rZW4=", "/", strings.Repeat("9", 40)}
	bnd, mp := multipartBody([2]string{"application/json", `{"name":"victim","contentType":"t/x"}`}, [2]string{"text/plain", "payload"})
	bodies := [][]byte{nil, []byte("{"), []byte(`{"name":"victim"}`), []byte(`{"sourceObjects":[{"name":"keep/a.txt"}]}`), []byte(`{"sourceObjects":[{"name":"keep/a.txt"},{"name":"missing"}],"destination":{"contentType":"x/y"}}`),
		[]byte(`{"sourceObjects":null,"destination":null}`), []byte(`[1,2,3]`), []byte(`"str"`), []byte(`{"metadata":{"k":null},"contentType":7}`), []byte(`{"generation":"12","metageneration":"-3","size":"99999999999999999999"}`),
		mp, mp[:len(mp)/2], mp[:len(mp)-5], bytes.Repeat([]byte("A"), 70000), {0x1f, 0x8b, 0x08, 0, 0, 0}, []byte("--" + bnd + "\r\n\r\n")}
	ctypes := []string{"", "application/json", "multipart/related; boundary=" + bnd, "multipart/related", "multipart/related; boundary=", "multipart/mixed; boundary=" + bnd, "text/plain", "application/x-www-form-urlencoded", ";;;"}
	ranges := []string{"", "bytes 0-6/7", "bytes */*", "bytes */7", "bytes 5-2/3", "bytes -1--1/-1", "bytes 0-0/0", "bytes 9223372036854775807-9223372036854775807/*", "bytes 0-18446744073709551615/*", "garbage", "bytes /", "bytes 0-/7"}
	var out []rawReq
	for i := 0; i < n; i++ {
		r := rawReq{Method: methods[rng.Intn(len(methods))], Headers: map[string]string{}}
		if rng.Intn(3) != 0 {
			r.Method = []string{"GET", "POST", "PUT", "PATCH", "DELETE"}[rng.Intn(5)]
		}
		u := base + paths[rng.Intn(len(paths))]
		var qs []string
		for k := rng.Intn(4); k > 0; k-- {
			qs = append(qs, qkeys[rng.Intn(len(qkeys))]+"="+qvals[rng.Intn(len(qvals))])
		}
		if len(qs) > 0 {
			u += "?" + strings.Join(qs, "&")
		}
		r.URL = u
		if r.Method == "DELETE" && (strings.HasSuffix(strings.SplitN(u, "?", 2)[0], "/b/bkt") || strings.HasSuffix(strings.SplitN(u, "?", 2)[0], "/b/bkt/o")) {
			r.Method = "GET" // deleting the seeded bucket is a valid request, not a perturbation
		}
		if r.Method != "GET" && r.Method != "HEAD" && rng.Intn(4) != 0 {
			r.Body = bodies[rng.Intn(len(bodies))]
		}
		if rng.Intn(2) == 0 {
			r.Headers["Content-Type"] = ctypes[rng.Intn(len(ctypes))]
		}
		if rng.Intn(3) == 0 {
			r.Headers["Content-Range"] = ranges[rng.Intn(len(ranges))]
		}
		if rng.Intn(8) == 0 {
			r.Headers["Content-Encoding"] = "gzip"
		}
		if rng.Intn(10) == 0 {
			r.Headers["X-Forwarded-Host"] = []string{"proxy.example", "", "a,b", "\x7f"}[rng.Intn(4)]
		}
		if rng.Intn(10) == 0 {
			r.Headers["Forwarded"] = []string{"host=x;proto=https", "host=\"", ";;;", "host="}[rng.Intn(4)]
		}
		if rng.Intn(12) == 0 {
			r.Headers["Accept-Encoding"] = []string{"gzip", "identity", ""}[rng.Intn(3)]
		}
		out = append(out, r)
	}
	return out
}

// c20Directed: well-formed multipart and resumable uploads whose object NAME is degenerate (empty,
// missing, dots, a directory of the store, a path through a stored file, a sidecar's file name, NUL,
// over-long): whatever the answer, the seeded objects must survive and valid requests must still work.
func c20Directed() []rawReq {
	names := []string{`""`, `null`, `"/"`, `"."`, `".."`, `"../x"`, `"a/../../x"`, `"../other-bucket/z"`, `"a/../../other-bucket/z"`, `"keep//a.txt"`, `"keep"`, `"keep/"`, `"keep/a.txt/sub"`, `"keep/a.txt.emumeta"`, `"\u0000"`, `"` + strings.Repeat("n", 300) + `"`, `"` + strings.Repeat("d/", 200) + `x"`}
	var out []rawReq
	for ni, nm := range names {
		meta := `{"name":` + nm + `,"contentType":"t/x"}`
		if nm == "null" {
			meta = `{"contentType":"t/x"}`
		}
		bnd, mp := multipartBody([2]string{"application/json", meta}, [2]string{"text/plain", "payload"})
		// once into the seeded bucket and once into a bucket that does not exist yet (the stores create
		// buckets on first use)
		for _, bk := range []string{"bkt", fmt.Sprintf("fresh-%d", ni)} {
			out = append(out,
				rawReq{Method: "POST", URL: "http://emu/upload/storage/v1/b/" + bk + "/o?uploadType=multipart", Headers: map[string]string{"Content-Type": "multipart/related; boundary=" + bnd}, Body: mp},
				rawReq{Method: "POST", URL: "http://emu/upload/storage/v1/b/" + bk + "/o?uploadType=resumable", Headers: map[string]string{"Content-Type": "application/json"}, Body: []byte(meta)},
				// a valid request afterwards: the store must still take and serve an ordinary object
				rawReq{Method: "POST", URL: "http://emu/upload/storage/v1/b/" + bk + "/o?uploadType=media&name=after-degenerate", Headers: map[string]string{"Content-Type": "text/plain"}, Body: []byte("still works")},
				rawReq{Method: "GET", URL: "http://emu/storage/v1/b/" + bk + "/o/after-degenerate?alt=media"})
		}
	}
	// chunks of the pending resumable session (upload_id=1) that are consistent with their body but
	// declare absurd totals or offsets: the answer is 308 / 400, never a crash or an allocation of that size
	for _, cr := range []string{"bytes 0-3/4611686018427387904", "bytes 0-3/9223372036854775807", "bytes 0-3/1000000000000000000", "bytes 0-3/99999999999", "bytes 0-3/*", "bytes 4-7/18446744073709551615", "bytes 4-7/9223372036854775806", "bytes 0-3/3", "bytes 0-3/0"} {
		out = append(out,
			rawReq{Method: "PUT", URL: "http://emu/upload/storage/v1/b/bkt/o?uploadType=resumable&upload_id=1", Headers: map[string]string{"Content-Range": cr}, Body: []byte("abcd")},
			rawReq{Method: "PUT", URL: "http://emu/upload/storage/v1/b/bkt/o?uploadType=resumable&upload_id=1", Headers: map[string]string{"Content-Range": "bytes */*"}},
			rawReq{Method: "POST", URL: "http://emu/upload/storage/v1/b/bkt/o?uploadType=media&name=after-degenerate", Headers: map[string]string{"Content-Type": "text/plain"}, Body: []byte("still works")},
			rawReq{Method: "GET", URL: "http://emu/storage/v1/b/bkt/o/after-degenerate?alt=media"})
	}
	// bucket names that are not one plain path segment, and a copy whose destination bucket is a path
	// into another bucket
	for _, bn := range []string{`""`, `"."`, `".."`, `"../escaped-bucket"`, `"../../escaped-bucket2"`, `"bkt/keep"`, `"x/y"`} {
		out = append(out,
			rawReq{Method: "POST", URL: "http://emu/storage/v1/b", Headers: map[string]string{"Content-Type": "application/json"}, Body: []byte(`{"name":` + bn + `}`)},
			rawReq{Method: "GET", URL: "http://emu/storage/v1/b/bkt/o"},
			rawReq{Method: "POST", URL: "http://emu/upload/storage/v1/b/bkt/o?uploadType=media&name=after-degenerate", Headers: map[string]string{"Content-Type": "text/plain"}, Body: []byte("still works")},
			rawReq{Method: "GET", URL: "http://emu/storage/v1/b/bkt/o/after-degenerate?alt=media"})
	}
	for _, dst := range []string{"bkt/keep/o/a.txt", "../escaped-bucket3/o/x", "./o/x", "bkt/o/keep/../keep/b.bin"} {
		out = append(out,
			rawReq{Method: "POST", URL: "http://emu/storage/v1/b/other-bucket/o/z/rewriteTo/b/" + dst},
			rawReq{Method: "GET", URL: "http://emu/storage/v1/b/bkt/o"},
			rawReq{Method: "POST", URL: "http://emu/upload/storage/v1/b/bkt/o?uploadType=media&name=after-degenerate", Headers: map[string]string{"Content-Type": "text/plain"}, Body: []byte("still works")},
			rawReq{Method: "GET", URL: "http://emu/storage/v1/b/bkt/o/after-degenerate?alt=media"})
	}
	// names that are not valid UTF-8, on every path that names a new object by URL: refused (they could
	// not be reported in JSON nor carried by a page token), and the listing that would have had to put
	// one into its nextPageToken answers
	after := []rawReq{
		{Method: "POST", URL: "http://emu/upload/storage/v1/b/bkt/o?uploadType=media&name=after-degenerate", Headers: map[string]string{"Content-Type": "text/plain"}, Body: []byte("still works")},
		{Method: "GET", URL: "http://emu/storage/v1/b/bkt/o/after-degenerate?alt=media"}}
	media := func(n, d string) rawReq {
		return rawReq{Method: "POST", URL: "http://emu/upload/storage/v1/b/bkt/o?uploadType=media&name=" + n, Headers: map[string]string{"Content-Type": "text/plain"}, Body: []byte(d)}
	}
	page := rawReq{Method: "GET", URL: "http://emu/storage/v1/b/bkt/o?prefix=bad&maxResults=1"}
	for _, pair := range [][2]rawReq{
		{media("bad%FF1", "x"), media("bad%FF2", "y")},
		{media("bad%C0%AF3", "z"), page},
		{{Method: "POST", URL: "http://emu/storage/v1/b/other-bucket/o/z/rewriteTo/b/bkt/o/bad%FF4"}, page},
		{{Method: "POST", URL: "http://emu/storage/v1/b/bkt/o/bad%ED%A0%805/compose", Headers: map[string]string{"Content-Type": "application/json"}, Body: []byte(`{"sourceObjects":[{"name":"keep/a.txt"}],"destination":{"contentType":"t/x"}}`)}, page},
		{{Method: "GET", URL: "http://emu/storage/v1/b/bkt/o/bad%FF1"}, {Method: "GET", URL: "http://emu/storage/v1/b/bkt/o?maxResults=1"}},
	} {
		out = append(out, pair[0], pair[1], after[0], after[1])
	}
	return out
}

// batchOf wraps requests as parts of one batch request (optionally damaged)
func batchOf(parts []rawReq, damage int) rawReq {
	var buf bytes.Buffer
	mw := multipart.NewWriter(&buf)
	for i, p := range parts {
		h := textproto.MIMEHeader{}
		h.Set("Content-Type", "application/http")
		if damage == 3 && i == 0 {
			h.Set("Content-Type", "text/plain")
		}
		h.Set("Content-ID", fmt.Sprintf("<item-%d>", i))
		pw, _ := mw.CreatePart(h)
		u := strings.TrimPrefix(p.URL, "http://emu")
		fmt.Fprintf(pw, "%s %s HTTP/1.1\r\n", p.Method, u)
		for k, v := range p.Headers {
			fmt.Fprintf(pw, "%s: %s\r\n", k, v)
		}
		if len(p.Body) > 0 {
			fmt.Fprintf(pw, "Content-Length: %d\r\n", len(p.Body))
		}
		fmt.Fprintf(pw, "\r\n")
		_, _ = pw.Write(p.Body)
	}
	_ = mw.Close()
	body := buf.Bytes()
	switch damage {
	case 1:
		body = body[:len(body)*2/3]
	case 2:
		body = body[:len(body)-4]
	}
	ct := "multipart/mixed; boundary=" + mw.Boundary()
	if damage == 4 {
		ct = "multipart/mixed"
	}
	return rawReq{Method: "POST", URL: "http://emu/batch/storage/v1", Headers: map[string]string{"Content-Type": ct}, Body: body}
}

func judge(e *Emu, r rawReq, before string) rawCase {
	c := rawCase{Req: r}
	rec, p, hung := e.doRaw(r)
	if hung {
		c.Panic = "request did not return within 10s (hang)"
		return c
	}
	if p != "" {
		c.Panic = p
		return c
	}
	c.St = rec.Code
	if rec.Code < 100 || rec.Code > 599 {
		c.Notes = append(c.Notes, fmt.Sprintf("invalid HTTP status %d", rec.Code))
	}
	isBatch := strings.HasPrefix(r.URL, "http://emu/batch/")
	if rec.Code >= 400 && r.Method != "HEAD" && !isBatch {
		var env struct {
			Error struct {
				Code int `json:"code"`
			} `json:"error"`
		}
		body := rec.Body.Bytes()
		// net/http's own answers (mux redirects, method errors, gzip wrapper) are plain text: only API-level errors need the envelope
		plain := strings.HasPrefix(rec.Header().Get("Content-Type"), "text/plain")
		if !plain {
			if err := json.Unmarshal(body, &env); err != nil || env.Error.Code != rec.Code {
				c.Notes = append(c.Notes, fmt.Sprintf("error %d without a JSON error envelope carrying that code: %.60q", rec.Code, body))
			}
		}
	}
	if after := c20Probe(e); after != before {
		c.Notes = append(c.Notes, "previously stored objects changed or disappeared: "+after)
	}
	return c
}

func genC20(out, tier string, rng *rand.Rand) {
	sink := NewSink(out, gcsPrelude, "(list req * list resp)", "check_all", 50)
	n := 4000
	if tier == "thorough" {
		n = 60000
	}
	reqs := c20Requests(rng, n)
	directed := c20Directed()
	var mu sync.Mutex
	var all []rawCase
	nworkers := 16
	parallel(nworkers*2, func(w int) {
		mk := stores()[w%2]
		st, cleanup := mk.mk()
		outer := ""
		if w == 1 {
			// the file store that takes the directed requests lives in a directory of its own inside a
			// fresh directory, so that anything it writes outside its root shows up next to it
			cleanup()
			d, err := os.MkdirTemp(tmpRoot, "outer")
			if err != nil {
				panic(err)
			}
			outer = filepath.Join(d, "l1", "l2")
			if err := os.MkdirAll(filepath.Join(outer, "store"), 0o777); err != nil {
				panic(err)
			}
			st, cleanup = gcsemu.NewFileStore(filepath.Join(outer, "store")), func() { _ = os.RemoveAll(d) }
		}
		defer cleanup()
		e := NewEmu(st)
		for _, s := range c20Seeds {
			e.Exec(s)
		}
		// a pending resumable upload so that upload_id=1 exists
		e.Exec(Req{Kind: "resumable_init", B: "bkt", Up: &UpMeta{Name: "victim-resumable"}, CP: noConds})
		before := c20Probe(e)
		var mine []rawCase
		inflight := func(r rawReq) {
			// left behind for the driver: if this process dies, these are the requests that were running
			b, _ := json.Marshal(r)
			_ = os.WriteFile(filepath.Join(out, fmt.Sprintf("inflight_%d.json", w)), b, 0o666)
		}
		for i := w / 2; i < len(reqs); i += nworkers {
			r := reqs[i]
			inflight(r)
			c := judge(e, r, before)
			c.Store = mk.name
			mine = append(mine, c)
			// every 7th request also goes through the batch endpoint, with one neighbour
			if i%7 == 0 && !strings.Contains(r.URL, "/batch/") && !strings.Contains(r.URL, "/upload/") && r.Headers["Content-Encoding"] == "" {
				parts := []rawReq{r, {Method: "GET", URL: "http://emu/storage/v1/b/bkt/o/keep/a.txt"}}
				b := batchOf(parts, (i/7)%6)
				bc := judge(e, b, before)
				bc.Store = mk.name
				if bc.Panic == "" && bc.St == 200 && (i/7)%6 == 0 {
					bc.Notes = append(bc.Notes, batchNotes(e, b, parts)...)
				}
				mine = append(mine, bc)
			}
		}
		if w < 2 {
			// the directed degenerate-name uploads, in order, once per store; the two follow-up requests
			// of each group must succeed
			cur := before
			for i, r := range directed {
				inflight(r)
				c := judge(e, r, cur)
				c.Store = mk.name
				if after := c20Probe(e); after != cur {
					// damage is charged to the request that caused it: re-seed before the next one
					for _, s := range c20Seeds {
						e.Exec(s)
					}
					cur = c20Probe(e)
				}
				if i%4 >= 2 && c.Panic == "" && c.St != 200 {
					c.Notes = append(c.Notes, fmt.Sprintf("a valid request after an upload with a degenerate object name is answered %d", c.St))
				}
				mine = append(mine, c)
			}
			if outer != "" {
				var strays []string
				_ = filepath.Walk(filepath.Dir(filepath.Dir(outer)), func(p string, info os.FileInfo, err error) error {
					if err == nil && !strings.HasPrefix(p, filepath.Join(outer, "store")) && !strings.HasPrefix(filepath.Join(outer, "store"), p) {
						strays = append(strays, strings.TrimPrefix(p, filepath.Dir(filepath.Dir(outer))))
					}
					return nil
				})
				if len(strays) > 0 && len(mine) > 0 {
					last := &mine[len(mine)-1]
					last.Notes = append(last.Notes, fmt.Sprintf("the file store wrote outside its directory: %v", strays))
				}
			}
		}
		_ = os.Remove(filepath.Join(out, fmt.Sprintf("inflight_%d.json", w)))
		mu.Lock()
		all = append(all, mine...)
		mu.Unlock()
	})
	// every case becomes a one-step pseudo case for the statistics and the verdict (notes / panics)
	for _, c := range all {
		pc := Case{Store: c.Store, Tag: "http-perturbation", Prog: []Req{{Kind: c.Req.Method}}, Obs: []Resp{{Status: c.St, Kind: "none", Notes: c.Notes, Panic: c.Panic}}}
		js, _ := json.Marshal(struct {
			Store string `json:"store"`
			Tag   string `json:"tag"`
			Raw   rawReq `json:"raw"`
			Prog  []Req  `json:"prog"`
			Obs   []Resp `json:"obs"`
		}{c.Store, "http-perturbation", c.Req, pc.Prog, pc.Obs})
		sink.AddOracleOnly(pc, string(js), js, c.St >= 400 || c.St == 200)
	}
	// concurrent request mixes under the Go race detector (a separate -race binary)
	if bin := os.Getenv("VERIF_RACE_BIN_GCS"); bin != "" {
		secs := "5"
		if tier == "thorough" {
			secs = "30"
		}
		for _, store := range []string{"mem", "file"} {
			cmd := exec.Command(bin, "-prop", "race", "-tier", secs, "-replay", store, "-out", out)
			var stderr, stdout bytes.Buffer
			cmd.Stderr, cmd.Stdout = &stderr, &stdout
			err := cmd.Run()
			var notes []string
			panicText := ""
			if n := strings.Count(stderr.String(), "WARNING: DATA RACE"); n > 0 {
				i := strings.Index(stderr.String(), "WARNING: DATA RACE")
				notes = append(notes, fmt.Sprintf("%d data race report(s); first: %.900s", n, stderr.String()[i:]))
			}
			if strings.Contains(stderr.String(), "fatal error:") {
				i := strings.Index(stderr.String(), "fatal error:")
				panicText = fmt.Sprintf("fatal runtime error: %.300s", stderr.String()[i:])
			}
			var rep struct {
				Requests int      `json:"requests"`
				Panics   []string `json:"panics"`
			}
			_ = json.Unmarshal(stdout.Bytes(), &rep)
			if len(rep.Panics) > 0 {
				panicText = "handler panicked under concurrent traffic: " + rep.Panics[0]
			}
			if err != nil && panicText == "" && len(notes) == 0 {
				notes = append(notes, "race binary failed: "+err.Error())
			}
			pc := Case{Store: store, Tag: "race-mix", Prog: []Req{{Kind: "concurrent-mix"}}, Obs: []Resp{{Status: 200, Kind: "none", Notes: notes, Panic: panicText}}}
			js, _ := json.Marshal(pc)
			sink.stats.Requests += rep.Requests
			sink.AddOracleOnly(pc, string(js), js, rep.Requests > 0)
		}
	}
	sink.Close(fmt.Sprintf("%d structured perturbations of HTTP requests (method x URL shape incl. malformed/unknown paths x query parameters missing, ill-typed, negative, huge, badly escaped x bodies: bad JSON, truncated multipart, oversized, non-gzip with Content-Encoding gzip x Content-Range garbage x proxy headers) on both stores, one in seven also wrapped in a batch request (intact, truncated, wrong part type, missing boundary); judged by the Layer B oracle only (returns without panic or hang, valid status, JSON error envelope for API errors, one batch sub-response per part with the stand-alone status, seeded objects unchanged afterwards); plus concurrent request mixes (uploads, patches, reads, listings, deletes, compose, copy, bucket create/delete) for a few seconds per store under the Go race detector; distinct = distinct request text; non-trivial = answered 200 or an error status", n), false)
}

// batchNotes: an intact batch answers one sub-response per part, each with the status the request
// gets on its own.
func batchNotes(e *Emu, b rawReq, parts []rawReq) []string {
	rec, p, hung := e.doRaw(b)
	if p != "" || hung || rec == nil {
		return []string{"batch request panicked or hung on repetition"}
	}
	_, params, err := mime.ParseMediaType(rec.Header().Get("Content-Type"))
	if err != nil {
		return []string{"batch response has no multipart content type"}
	}
	mr := multipart.NewReader(rec.Body, params["boundary"])
	var notes []string
	i := 0
	for {
		part, err := mr.NextPart()
		if err == io.EOF {
			break
		}
		if err != nil {
			notes = append(notes, "batch response is not well-formed multipart: "+err.Error())
			break
		}
		sub, err := http.ReadResponse(bufio.NewReader(part), nil)
		if err != nil {
			notes = append(notes, fmt.Sprintf("batch sub-response %d is not an HTTP response: %v", i, err))
			i++
			continue
		}
		if i < len(parts) {
			alone, ap, ah := e.doRaw(parts[i])
			// 301 = net/http.ServeMux path cleaning, which a batch part does not go through
			if ap == "" && !ah && alone != nil && alone.Code != 301 && alone.Code != sub.StatusCode {
				notes = append(notes, fmt.Sprintf("batch sub-response %d has status %d, the same request alone gets %d", i, sub.StatusCode, alone.Code))
			}
		}
		i++
	}
	if i != len(parts) {
		notes = append(notes, fmt.Sprintf("batch of %d parts answered %d sub-responses", len(parts), i))
	}
	return notes
}

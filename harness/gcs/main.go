package main

import (
	"crypto/sha256"
	"encoding/hex"
	"encoding/json"
	"flag"
	"fmt"
	"math/rand"
	"os"
	"path/filepath"
	"runtime"
	"sort"
	"strings"
	"sync"
	"sync/atomic"

	"github.com/fullstorydev/emulators/storage/gcsemu"
)

// A Case is one program (list of abstract requests) with the responses observed on the
// real emulator.  Cases are written as Gallina literals (cases_<k>.v) for evaluation by the
// model inside Coq and as JSON lines (cases.jsonl) for replays and for the evidence file.
type Case struct {
	Store string `json:"store"`
	Tag   string `json:"tag,omitempty"`
	Prog  []Req  `json:"prog"`
	Obs   []Resp `json:"obs"`
}

func (c Case) coq() string {
	rank := rankGens(c.Obs)
	var ps, os_ []string
	for _, r := range c.Prog {
		ps = append(ps, r.coq())
	}
	for _, r := range c.Obs {
		os_ = append(os_, r.coq(rank))
	}
	return "(" + cList(ps) + ",\n   " + cList(os_) + ")"
}

type Stats struct {
	Evaluations  int            `json:"evaluations"`
	Requests     int            `json:"requests"`
	Distinct     int            `json:"distinct"`
	Nontrivial   int            `json:"distinct_nontrivial"`
	ByKind       map[string]int `json:"by_kind"`
	ByStatus     map[string]int `json:"by_status"`
	ByStore      map[string]int `json:"by_store"`
	ByTag        map[string]int `json:"by_tag"`
	Notes        []string       `json:"notes"`       // Layer-B side conditions that failed (harness-side)
	NoteCases    []int          `json:"note_cases"`  // indices (into cases.jsonl) of cases with notes
	Panics       []int          `json:"panic_cases"` // indices of cases in which the emulator panicked
	Samples      []Case         `json:"samples"`
	Files        []string       `json:"files"`
	Skipped      int            `json:"skipped"` // cases not executed because the implementation kept wedging
	Exhaustive   bool           `json:"exhaustive"`
	Rule         string         `json:"rule"`
	GenCollision int            `json:"generation_collisions"`
}

type variantBuf struct {
	checker  string
	caseType string
	cur      []string
	curIdx   []int
}

type Sink struct {
	dir       string
	prelude   string
	checker   string // Coq function applied to the case list
	oracle    string // optional Layer-B oracle applied to the case list
	fsVariant bool   // evaluate file-store cases with the file-store model (check_all_fs)
	caseType  string
	perFile   int
	cur       []string
	curIdx    []int
	curV      map[string]*variantBuf // additional shard streams (e.g. "fs": file-store model)
	fileNo    int
	jsonl     *os.File
	seen      map[string]int // canonical text -> first index
	n         int
	stats     *Stats
	index     [][]int // per file: global case index of each entry
}

func NewSink(dir, prelude, caseType, checker string, perFile int) *Sink {
	_ = os.MkdirAll(dir, 0o777)
	f, err := os.Create(filepath.Join(dir, "cases.jsonl"))
	if err != nil {
		panic(err)
	}
	return &Sink{dir: dir, prelude: prelude, caseType: caseType, checker: checker, perFile: perFile, jsonl: f, seen: map[string]int{},
		stats: &Stats{ByKind: map[string]int{}, ByStatus: map[string]int{}, ByStore: map[string]int{}, ByTag: map[string]int{}}}
}

// Add records a case.  nontrivial is the property-specific rule.  Cases whose canonical text
// was already emitted (e.g. the same program giving identical observations on the other store)
// are counted but not written to a .v file again.
func (s *Sink) Add(c Case, nontrivial bool) {
	b, _ := json.Marshal(c)
	s.AddPre(c, c.coq(), b, nontrivial)
}

// AddPreV: like AddPre, but the case is evaluated with the checker of the named variant
// (its own shard files); identical texts are only deduplicated within one variant.
func (s *Sink) AddPreV(variant, checker, caseType string, c Case, text string, b []byte, nontrivial bool) {
	if variant == "" {
		s.AddPre(c, text, b, nontrivial)
		return
	}
	if s.curV == nil {
		s.curV = map[string]*variantBuf{}
	}
	vb := s.curV[variant]
	if vb == nil {
		vb = &variantBuf{checker: checker, caseType: caseType}
		s.curV[variant] = vb
	}
	s.addCommon(c, b, variant+"\x00"+text, text, nontrivial, vb)
}

// AddOracleOnly records a case that has no Layer A model (judged by the harness-side oracle only):
// statistics, cases.jsonl, notes and panics, but no Coq shard.
func (s *Sink) AddOracleOnly(c Case, key string, b []byte, nontrivial bool) {
	s.addCommon(c, b, "oracle-only\x00"+key, "", nontrivial, &variantBuf{checker: ""})
}

func (s *Sink) AddPre(c Case, text string, b []byte, nontrivial bool) {
	s.addCommon(c, b, text, text, nontrivial, nil)
}

func (s *Sink) addCommon(c Case, b []byte, keytext, text string, nontrivial bool, vb *variantBuf) {
	idx := s.n
	s.n++
	st := s.stats
	st.Evaluations++
	st.Requests += len(c.Prog)
	st.ByStore[c.Store]++
	if c.Tag != "" {
		st.ByTag[c.Tag]++
	}
	for i, r := range c.Prog {
		st.ByKind[r.Kind]++
		st.ByStatus[fmt.Sprint(c.Obs[i].Status)]++
	}
	hasNote, hasPanic := false, false
	for i, o := range c.Obs {
		if len(o.Notes) > 0 {
			hasNote = true
			if len(st.Notes) < 50 {
				st.Notes = append(st.Notes, fmt.Sprintf("case %d step %d (%s): %s", idx, i, c.Prog[i].Kind, strings.Join(o.Notes, "; ")))
			}
		}
		if o.Panic != "" {
			hasPanic = true
		}
	}
	if hasNote {
		st.NoteCases = append(st.NoteCases, idx)
	}
	if hasPanic {
		st.Panics = append(st.Panics, idx)
	}
	_, _ = s.jsonl.Write(append(b, '\n'))
	h := sha256.Sum256([]byte(keytext))
	key := hex.EncodeToString(h[:8])
	if _, dup := s.seen[key]; dup {
		return
	}
	s.seen[key] = idx
	st.Distinct++
	if nontrivial {
		st.Nontrivial++
	}
	if len(st.Samples) < 3 && nontrivial {
		st.Samples = append(st.Samples, c)
	}
	if vb != nil && vb.checker == "" {
		return // oracle-only case
	}
	if vb != nil {
		vb.cur = append(vb.cur, text)
		vb.curIdx = append(vb.curIdx, idx)
		if len(vb.cur) >= s.perFile {
			s.flushBuf(vb.checker, vb.caseType, vb.cur, vb.curIdx)
			vb.cur, vb.curIdx = nil, nil
		}
		return
	}
	s.cur = append(s.cur, text)
	s.curIdx = append(s.curIdx, idx)
	if len(s.cur) >= s.perFile {
		s.flush()
	}
}

func (s *Sink) flush() {
	s.flushBuf(s.checker, s.caseType, s.cur, s.curIdx)
	s.cur, s.curIdx = nil, nil
}

func (s *Sink) flushBuf(checker, caseType string, cur []string, curIdx []int) {
	if len(cur) == 0 {
		return
	}
	name := fmt.Sprintf("cases_%03d.v", s.fileNo)
	s.fileNo++
	var sb strings.Builder
	defs, body := internLiterals(strings.Join(cur, ";\n"))
	sb.WriteString(s.prelude)
	sb.WriteString(defs)
	sb.WriteString("\nDefinition cases : list " + caseType + " := [\n")
	sb.WriteString(body)
	sb.WriteString("\n].\n")
	sb.WriteString("Definition R := Eval vm_compute in " + checker + " cases.\nPrint R.\n")
	if s.oracle != "" && caseType == s.caseType {
		sb.WriteString("Definition RB := Eval vm_compute in " + s.oracle + " cases.\nPrint RB.\n")
	}
	if err := os.WriteFile(filepath.Join(s.dir, name), []byte(sb.String()), 0o666); err != nil {
		panic(err)
	}
	s.stats.Files = append(s.stats.Files, name)
	s.index = append(s.index, curIdx)
}

func (s *Sink) Close(rule string, exhaustive bool) {
	s.flush()
	for _, vb := range s.curV {
		s.flushBuf(vb.checker, vb.caseType, vb.cur, vb.curIdx)
	}
	_ = s.jsonl.Close()
	s.stats.Rule = rule
	s.stats.Exhaustive = exhaustive
	b, _ := json.MarshalIndent(struct {
		*Stats
		Index [][]int `json:"index"`
	}{s.stats, s.index}, "", " ")
	_ = os.WriteFile(filepath.Join(s.dir, "meta.json"), b, 0o666)
}

const gcsPrelude = `From Coq Require Import List NArith ZArith.
Import ListNotations.
From Emu.Common Require Import Bytes Str.
From Emu.GCS Require Import Model Check Oracles Url Conc ConcCheck FsPaths.
`

// ---------- stores ----------

type storeMaker struct {
	name string
	mk   func() (gcsemu.Store, func())
}

var tmpRoot string

func stores() []storeMaker {
	return []storeMaker{
		{"mem", func() (gcsemu.Store, func()) { return gcsemu.NewMemStore(), func() {} }},
		{"file", func() (gcsemu.Store, func()) {
			d, err := os.MkdirTemp(tmpRoot, "fs")
			if err != nil {
				panic(err)
			}
			return gcsemu.NewFileStore(d), func() { _ = os.RemoveAll(d) }
		}},
	}
}

func runProg(mk storeMaker, prog []Req) []Resp {
	st, cleanup := mk.mk()
	defer cleanup()
	e := NewEmu(st)
	obs := make([]Resp, 0, len(prog))
	for i := range prog {
		obs = append(obs, e.Exec(prog[i]))
	}
	return obs
}

// fixIDs fills the upload ids of resumable PUTs from the observed init responses: the generator
// refers to "the n-th initiated upload" by writing ID "#n".
func runProgIDs(mk storeMaker, prog []Req) ([]Req, []Resp) {
	st, cleanup := mk.mk()
	defer cleanup()
	e := NewEmu(st)
	out := make([]Req, len(prog))
	copy(out, prog)
	var ids []string
	obs := make([]Resp, 0, len(prog))
	for i := range out {
		if out[i].Kind == "resumable_put" && strings.HasPrefix(out[i].ID, "#") {
			var k int
			fmt.Sscanf(out[i].ID, "#%d", &k)
			if k < len(ids) {
				out[i].ID = ids[k]
			} else {
				out[i].ID = "999999"
			}
		}
		o := e.Exec(out[i])
		if out[i].Kind == "resumable_init" {
			if o.Status == 200 {
				ids = append(ids, o.ID)
			} else {
				ids = append(ids, "999999")
			}
		}
		obs = append(obs, o)
	}
	return out, obs
}

// Task is one program to run on one store; RunTasks executes them on all cores and feeds the
// sink in task order, so the output is deterministic.
type Task struct {
	Store      storeMaker
	Tag        string
	Prog       []Req
	Nontrivial bool
}

func RunTasks(sink *Sink, tasks []Task) { RunTasksNT(sink, tasks, nil) }

// RunTasksNT: like RunTasks, with the non-triviality of a case decided from its observations.
func RunTasksNT(sink *Sink, tasks []Task, nt func(Case) bool) {
	type res struct {
		c    Case
		text string
		js   []byte
	}
	out := make([]res, len(tasks))
	var wg sync.WaitGroup
	next := int64(-1)
	for w := 0; w < runtime.NumCPU(); w++ {
		wg.Add(1)
		go func() {
			defer wg.Done()
			for {
				i := int(atomic.AddInt64(&next, 1))
				if i >= len(tasks) {
					return
				}
				p, o := runProgIDs(tasks[i].Store, tasks[i].Prog)
				c := Case{Store: tasks[i].Store.name, Tag: tasks[i].Tag, Prog: p, Obs: o}
				js, _ := json.Marshal(c)
				out[i] = res{c, c.coq(), js}
			}
		}()
	}
	wg.Wait()
	for i, t := range tasks {
		ntv := t.Nontrivial
		if nt != nil {
			ntv = nt(out[i].c)
		}
		if sink.fsVariant && t.Store.name == "file" {
			sink.AddPreV("fs", "check_all_fs", "(list req * list resp)", out[i].c, out[i].text, out[i].js, ntv)
		} else {
			sink.AddPre(out[i].c, out[i].text, out[i].js, ntv)
		}
	}
}

func main() {
	prop := flag.String("prop", "", "property id")
	tier := flag.String("tier", "quick", "quick|thorough")
	seed := flag.Int64("seed", 1, "PRNG seed")
	out := flag.String("out", "", "output directory")
	replay := flag.String("replay", "", "replay file (a JSON case)")
	flag.Parse()
	if *out == "" {
		fmt.Fprintln(os.Stderr, "missing -out")
		os.Exit(2)
	}
	tmpRoot = filepath.Join(*out, "tmp")
	if st, err := os.Stat("/dev/shm"); err == nil && st.IsDir() {
		tmpRoot, _ = os.MkdirTemp("/dev/shm", "verifgcs")
	}
	_ = os.MkdirAll(tmpRoot, 0o777)
	defer os.RemoveAll(tmpRoot)
	rng := rand.New(rand.NewSource(*seed))
	if *prop == "race" {
		secs := 6
		fmt.Sscanf(*tier, "%d", &secs)
		raceMain(secs, *replay)
		return
	}
	if *replay != "" {
		doReplay(*replay, *out)
		return
	}
	switch *prop {
	case "C04":
		genC04(*out, *tier, rng)
	case "C02", "C10", "C15":
		genHist(*prop, *out, *tier, rng, "")
	case "C20":
		genC20(*out, *tier, rng)
	case "C07":
		genC07(*out, *tier, rng)
	case "C09":
		genC09(*out, *tier, rng)
	case "C11":
		genC11(*out, *tier, rng)
	default:
		fmt.Fprintln(os.Stderr, "unknown property", *prop)
		os.Exit(2)
	}
}

// doReplay re-runs the program of a recorded case on the current implementation.
func doReplay(path, out string) {
	b, err := os.ReadFile(path)
	if err != nil {
		panic(err)
	}
	var rp struct {
		Case Case `json:"case"`
	}
	if err := json.Unmarshal(b, &rp); err != nil {
		panic(err)
	}
	sink := NewSink(out, gcsPrelude, "(list req * list resp)", "check_all", 100)
	if rp.Case.Tag == "fs-paths" && len(rp.Case.Prog) == 1 {
		c, text := fsPathCase(rp.Case.Prog[0].B, rp.Case.Prog[0].N)
		js, _ := jsonMarshal(c)
		sink.AddPreV("fspaths", "check_fspaths", fsPathType, c, text, js, true)
		sink.Close("replay of one recorded case", false)
		return
	}
	for _, mk := range stores() {
		if rp.Case.Store != "" && rp.Case.Store != mk.name {
			continue
		}
		prog, obs := runProgIDs(mk, rp.Case.Prog)
		sink.Add(Case{Store: mk.name, Tag: "replay", Prog: prog, Obs: obs}, true)
	}
	sink.Close("replay of one recorded case", false)
}

func sortedKeys(m map[string]int) []string {
	var k []string
	for x := range m {
		k = append(k, x)
	}
	sort.Strings(k)
	return k
}

func jsonMarshal(v interface{}) ([]byte, error) { return json.Marshal(v) }

// parallel runs f(0..n-1) on all cores.
func parallel(n int, f func(i int)) {
	var wg sync.WaitGroup
	next := int64(-1)
	for w := 0; w < runtime.NumCPU(); w++ {
		wg.Add(1)
		go func() {
			defer wg.Done()
			for {
				i := int(atomic.AddInt64(&next, 1))
				if i >= n {
					return
				}
				f(i)
			}
		}()
	}
	wg.Wait()
}

package main

import (
	"crypto/md5"
	"encoding/base64"
	"encoding/json"
	"fmt"
	"math/rand"
	"os"
	"sync/atomic"
	"time"

	"github.com/fullstorydev/emulators/storage/gcsemu"
)

// C07: scheduled (interleaved) executions of requests on one object.

type GConcCase struct {
	Store   string    `json:"store"`
	Tag     string    `json:"tag"`
	Setup   []Req     `json:"setup"`
	Threads [][]Req   `json:"threads"`
	Sched   []int     `json:"sched"`
	Obs     []Outcome `json:"obs"`
	Final   []Req     `json:"final"`
	FinalR  []Resp    `json:"final_resp"`
}

func (c *GConcCase) coq() string {
	var all []Resp
	for _, o := range c.Obs {
		if o.Kind == "done" {
			all = append(all, *o.Resp)
		}
	}
	all = append(all, c.FinalR...)
	rank := rankGens(all)
	var setup, threads, sched, obs, final []string
	for _, r := range c.Setup {
		setup = append(setup, r.coq())
	}
	for _, t := range c.Threads {
		var rs []string
		for _, r := range t {
			rs = append(rs, r.coq())
		}
		threads = append(threads, cList(rs))
	}
	for _, i := range c.Sched {
		sched = append(sched, fmt.Sprintf("%d%%nat", i))
	}
	for _, o := range c.Obs {
		switch o.Kind {
		case "at":
			obs = append(obs, "OAt")
		case "blocked":
			obs = append(obs, "OBlocked")
		case "done":
			obs = append(obs, "(ODone "+o.Resp.coq(rank)+")")
		default:
			obs = append(obs, "OIdle")
		}
	}
	for i, f := range c.Final {
		final = append(final, "("+f.coq()+", "+c.FinalR[i].coq(rank)+")")
	}
	return fmt.Sprintf("(mkGCase %s\n  %s\n  %s\n  %s\n  %s)", cList(setup), cList(threads), cList(sched), cList(obs), cList(final))
}

const gconcPrelude = `From Coq Require Import List NArith ZArith.
Import ListNotations.
From Emu.Common Require Import Bytes Str.
From Emu.GCS Require Import Model Check Conc ConcCheck.
`

func (c *GConcCase) pseudo() Case {
	pc := Case{Store: c.Store, Tag: c.Tag}
	for _, t := range c.Threads {
		pc.Prog = append(pc.Prog, t...)
	}
	for _, o := range c.Obs {
		if o.Kind == "done" {
			pc.Obs = append(pc.Obs, *o.Resp)
		}
	}
	for len(pc.Obs) < len(pc.Prog) {
		pc.Obs = append(pc.Obs, Resp{Status: 597, Kind: "none"})
	}
	pc.Obs = pc.Obs[:len(pc.Prog)]
	return pc
}

// wedgedCases: see harness/bt: after a few cases whose threads never finish the rest is not executed.
var wedgedCases atomic.Int32

const maxWedged = 8

func runGConc(mk storeMaker, setup []Req, threads [][]Req, sched []int, final []Req, tag string) *GConcCase {
	if wedgedCases.Load() >= maxWedged {
		return nil
	}
	st, cleanup := mk.mk()
	defer cleanup()
	e := NewEmu(st)
	c := &GConcCase{Store: mk.name, Tag: tag, Setup: setup, Threads: threads, Final: final}
	for _, r := range setup {
		e.Exec(r)
	}
	s := NewSched(e, threads)
	step := func(i int) {
		s.StepPref(i, func(j int, o Outcome) {
			c.Sched = append(c.Sched, j)
			c.Obs = append(c.Obs, o)
		})
	}
	for _, i := range sched {
		step(i)
	}
	busy := true
	deadline := time.Now().Add(30 * time.Second)
	for round := 0; round < 200 && busy && time.Now().Before(deadline); round++ {
		busy = false
		for i, t := range s.threads {
			if !t.dead && (t.running || t.parked != "" || len(t.todo) > 0) {
				busy = true
				step(i)
			}
		}
	}
	for _, t := range s.threads {
		if t.dead {
			busy = true
		}
	}
	if busy {
		// some thread never finished: an object lock may be held for ever; the final probes are not
		// run (the recorded steps already differ from the model, where every schedule drains)
		wedgedCases.Add(1)
		c.Final = nil
		return c
	}
	for _, f := range final {
		c.FinalR = append(c.FinalR, e.Exec(f))
	}
	return c
}

const c07B = "bkt"

func c07Setup() []Req {
	return []Req{
		{Kind: "upload_media", B: c07B, N: "obj", CType: "text/v0", Data: []byte("v0"), CP: noConds},
		{Kind: "upload_media", B: c07B, N: "s1", CType: "text/plain", Data: []byte("S1-"), CP: noConds},
		{Kind: "upload_media", B: c07B, N: "s2", CType: "text/plain", Data: []byte("S2-"), CP: noConds},
	}
}

// c07Sessions: resumable sessions opened (sequentially) before the threads start; ids are the
// emulator's counter values "1".."12": 1-6 conditioned on obj's generation at that time, 7-12 not.
const c07NSess = 6

func c07SetupSessions() []Req {
	out := c07Setup()
	genCur := [4]CParam{GenOf(c07B, "obj", 0), Raw(""), Raw(""), Raw("")}
	for i := 1; i <= 2*c07NSess; i++ {
		cp := genCur
		if i > c07NSess {
			cp = noConds
		}
		out = append(out, Req{Kind: "resumable_init", B: c07B, Up: &UpMeta{Name: "obj", CType: fmt.Sprintf("text/r%d", i), Meta: [][2]string{{"sess", fmt.Sprint(i)}}}, CP: cp})
	}
	return out
}

const c07Kinds = 12

// request kinds on the shared object "obj" (or on the absent object "fresh" for must-not-exist)
func c07Request(kind, variant int) (Req, int) {
	v := fmt.Sprint(variant)
	genCur := [4]CParam{GenOf(c07B, "obj", 0), Raw(""), Raw(""), Raw("")}
	metaCur := [4]CParam{Raw(""), Raw(""), MetaOf(c07B, "obj", 0), Raw("")}
	switch kind {
	case 0:
		return Req{Kind: "upload_media", B: c07B, N: "obj", CType: "text/u" + v, Data: []byte("upload-" + v), CP: noConds}, 2
	case 1:
		return Req{Kind: "upload_multipart", B: c07B, Up: &UpMeta{Name: "obj", CType: "text/c" + v, Md5: 1, Meta: [][2]string{{"by", v}}}, Data: []byte("cond-" + v), CP: genCur}, 2
	case 2:
		return Req{Kind: "upload_media", B: c07B, N: "fresh", CType: "text/n" + v, Data: []byte("new-" + v), CP: [4]CParam{Raw("0"), Raw(""), Raw(""), Raw("")}}, 2
	case 3:
		ct := "text/p" + v
		return Req{Kind: "patch", B: c07B, N: "obj", Patch: &Patch{CType: &ct, HasMeta: true, Meta: [][2]string{{"p" + v, v}}}, CP: metaCur}, 2
	case 4:
		return Req{Kind: "delete", B: c07B, N: "obj", CP: noConds}, 2
	case 5:
		return Req{Kind: "compose", B: c07B, N: "obj", Srcs: []Src{{Name: "s1", Cond: Raw("")}, {Name: "obj", Cond: Raw("")}, {Name: "s2", Cond: Raw("")}}, Up: &UpMeta{CType: "text/composed" + v}, CP: noConds}, 2
	case 6:
		return Req{Kind: "copy", B: c07B, N: "s" + fmt.Sprint(1+variant%2), B2: c07B, N2: "obj"}, 2
	case 7:
		return Req{Kind: "get_meta", B: c07B, N: "obj"}, 2
	case 8:
		return Req{Kind: "get_media", B: c07B, N: "obj"}, 2
	case 10, 11:
		// the PUT that completes a resumable upload of obj (session opened in the setup)
		id := variant
		if kind == 11 {
			id += c07NSess
		}
		data := []byte("resumed-" + v)
		cr := fmt.Sprintf("bytes 0-%d/%d", len(data)-1, len(data))
		return Req{Kind: "resumable_put", B: c07B, ID: fmt.Sprint(id), CRange: &cr, Data: data}, 2
	}
	// an upload that changes a compose SOURCE (not the locked destination)
	return Req{Kind: "upload_media", B: c07B, N: "s1", CType: "text/plain", Data: []byte("S1new" + v + "-"), CP: noConds}, 2
}

func interleavings(a, b int) [][]int {
	if a == 0 && b == 0 {
		return [][]int{{}}
	}
	var out [][]int
	if a > 0 {
		for _, r := range interleavings(a-1, b) {
			out = append(out, append([]int{0}, r...))
		}
	}
	if b > 0 {
		for _, r := range interleavings(a, b-1) {
			out = append(out, append([]int{1}, r...))
		}
	}
	return out
}

// mixtureCheck: GCS-10 scenario on the file store: a reader between the file operations of Add
func fileMixtureNotes() []string {
	d, err := os.MkdirTemp(tmpRoot, "mix")
	if err != nil {
		panic(err)
	}
	defer os.RemoveAll(d)
	e := NewEmu(gcsemu.NewFileStore(d))
	e.Exec(Req{Kind: "upload_media", B: c07B, N: "obj", CType: "text/old", Data: []byte("old-content"), CP: noConds})
	parkInFileAdd.Store(true)
	defer parkInFileAdd.Store(false)
	s := NewSched(e, [][]Req{{{Kind: "upload_media", B: c07B, N: "obj", CType: "text/new", Data: []byte("NEW"), CP: noConds}}})
	var notes []string
	for i := 0; i < 6; i++ {
		o := s.Step(0)
		if o.Kind == "at" && (o.Point == "fs.add.content" || o.Point == "fs.add.mtime") {
			meta := e.rawMeta(c07B, "obj")
			data, ok := e.rawMedia(c07B, "obj")
			if meta != nil && ok {
				sum := md5.Sum(data)
				if base64.StdEncoding.EncodeToString(sum[:]) != meta.Md5Hash || int(meta.Size) != len(data) ||
					(string(data) == "NEW") != (meta.ContentType == "text/new") {
					notes = append(notes, fmt.Sprintf("file store: a reader at %s sees content %q with metadata of another version (contentType %s, md5 mismatch)", o.Point, data, meta.ContentType))
				}
			}
		}
		if o.Kind == "done" {
			break
		}
	}
	s.Drain()
	return notes
}

func genC07(out, tier string, rng *rand.Rand) {
	sink := NewSink(out, gconcPrelude, "gcase", "check_gconc", 40)
	final := []Req{{Kind: "get_meta", B: c07B, N: "obj"}, {Kind: "get_media", B: c07B, N: "obj"}, {Kind: "get_meta", B: c07B, N: "fresh"}, {Kind: "get_media", B: c07B, N: "fresh"}, {Kind: "get_media", B: c07B, N: "s1"}, {Kind: "list", B: c07B}}
	type job struct {
		mk      storeMaker
		threads [][]Req
		sched   []int
		tag     string
	}
	var jobs []job
	for _, mk := range stores() {
		for ka := 0; ka < c07Kinds; ka++ {
			for kb := 0; kb < c07Kinds; kb++ {
				ra, na := c07Request(ka, 1)
				rb, nb := c07Request(kb, 2)
				for _, sch := range interleavings(na, nb) {
					jobs = append(jobs, job{mk, [][]Req{{ra}, {rb}}, sch, fmt.Sprintf("pair-%d-%d", ka, kb)})
				}
			}
		}
	}
	if tier == "thorough" {
		for n := 0; n < 2000; n++ {
			mk := stores()[rng.Intn(2)]
			var threads [][]Req
			for t := 0; t < 3; t++ {
				r1, _ := c07Request(rng.Intn(c07Kinds), t+1)
				r2, _ := c07Request(rng.Intn(c07Kinds), t+4)
				threads = append(threads, []Req{r1, r2})
			}
			var sch []int
			for i := 0; i < 14; i++ {
				sch = append(sch, rng.Intn(3))
			}
			jobs = append(jobs, job{mk, threads, sch, "triple"})
		}
	}
	results := make([]*GConcCase, len(jobs))
	parallel(len(jobs), func(i int) {
		results[i] = runGConc(jobs[i].mk, c07SetupSessions(), jobs[i].threads, jobs[i].sched, final, jobs[i].tag)
	})
	for _, c := range results {
		if c == nil {
			sink.stats.Skipped++
			continue
		}
		js, _ := json.Marshal(c)
		nt := false
		for _, o := range c.Obs {
			if o.Kind == "blocked" {
				nt = true
			}
		}
		sink.AddPre(c.pseudo(), c.coq(), js, nt)
	}
	// stored versions never change: composites built from a shared first source (snapshot, then append),
	// same-size recomposes and copies, read back afterwards -- generation and content belong together
	{
		up := func(n, d string) Req {
			return Req{Kind: "upload_media", B: c07B, N: n, CType: "text/plain", Data: []byte(d), CP: noConds}
		}
		comp := func(dst string, srcs ...string) Req {
			r := Req{Kind: "compose", B: c07B, N: dst, Up: &UpMeta{CType: "x/composed"}, CP: noConds}
			for _, s := range srcs {
				r.Srcs = append(r.Srcs, Src{Name: s, Cond: Raw("")})
			}
			return r
		}
		rd := func(n string) []Req {
			return []Req{{Kind: "get_media", B: c07B, N: n}, {Kind: "get_meta", B: c07B, N: n}}
		}
		progs := append(sameSizePrograms(),
			append(append(append([]Req{up("log", "line1;"), up("trailer", "<EOF>;"), up("part2", "line2;"), comp("snap", "log", "trailer")}, rd("snap")...), comp("log", "log", "part2")), append(rd("snap"), rd("log")...)...),
			append(append([]Req{up("base", "B;"), up("p1", "one"), up("p2", "two"), up("p3", "three"), comp("d1", "base", "p1"), comp("d2", "base", "p2"), comp("d3", "base", "p3")}, rd("d1")...), append(rd("d2"), rd("d3")...)...))
		for _, mk := range stores() {
			for _, prog := range progs {
				o := runProg(mk, prog)
				c := Case{Store: mk.name, Tag: "stored-versions", Prog: prog, Obs: o}
				js, _ := json.Marshal(c)
				sink.AddPreV("seq", "check_all", "(list req * list resp)", c, c.coq(), js, true)
			}
		}
	}
	// a request abandoned by its client while it waits for the object lock must not be performed
	// (oracle only: the interleaving model has no cancellation)
	for _, mk := range stores() {
		for ka := 0; ka < 7; ka++ {
			for _, kb := range []int{0, 1, 2, 3, 4, 5, 6, 10} {
				c := abandonedCase(mk, ka, kb)
				js, _ := json.Marshal(c)
				sink.AddOracleOnly(c, string(js), js, true)
			}
		}
	}
	// the file store's non-atomic Add against a lock-free reader (finding GCS-10)
	mix := Case{Store: "file", Tag: "file-add-mixture", Prog: []Req{{Kind: "get_bucket", B: "no-such-bucket"}}, Obs: []Resp{{Status: 404, Kind: "none", Notes: fileMixtureNotes()}}}
	js, _ := json.Marshal(mix)
	sink.AddPreV("seq", "check_all", "(list req * list resp)", mix, mix.coq(), js, true)
	sink.Close("every interleaving (at the yield point between precondition check and store mutation, where the object lock is held) of two requests drawn from {unconditional upload, upload conditioned on the current generation, upload conditioned on non-existence, patch conditioned on the current metageneration, delete, compose with the destination among its sources, copy onto the object, metadata GET, media GET, upload of a compose source, the completing PUT of a resumable upload conditioned on the generation at session start, the same unconditioned} on one object, each schedule followed by a recorded round-robin drain; every step (parked / blocked on the object lock / returned + response) and the final state are compared with the interleaving model; both stores; plus the file store's three-step Add observed by a lock-free reader (tag file-add-mixture); thorough adds sampled three-thread schedules; non-trivial = some step was blocked on the object lock", true)
}

// abandonedCase: A (kind ka) parks holding the lock of obj (or of fresh for kind 2), B (kind kb) queues
// behind it, B's client gives up, B returns, A finishes.  B must not have been performed: its answer is
// not a success and the final state is what A alone produces (the same schedule is run again without B).
func abandonedCase(mk storeMaker, ka, kb int) Case {
	final := []Req{{Kind: "get_meta", B: c07B, N: "obj"}, {Kind: "get_media", B: c07B, N: "obj"}, {Kind: "get_meta", B: c07B, N: "fresh"}, {Kind: "get_media", B: c07B, N: "fresh"}, {Kind: "list", B: c07B}}
	ra, _ := c07Request(ka, 1)
	rb, _ := c07Request(kb, 2)
	if ka == 2 { // A works on "fresh": make B do so too
		rb.N = "fresh"
		if rb.Up != nil {
			rb.Up.Name = "fresh"
		}
		rb.N2 = "fresh"
	}
	run := func(withB bool) ([]Resp, *Resp, bool, bool) {
		st, cleanup := mk.mk()
		defer cleanup()
		e := NewEmu(st)
		for _, r := range c07SetupSessions() {
			e.Exec(r)
		}
		threads := [][]Req{{ra}}
		if withB {
			threads = append(threads, []Req{rb})
		}
		s := NewSched(e, threads)
		var bResp *Resp
		blocked := false
		o := s.Step(0) // A: parks holding the lock
		if o.Kind != "at" {
			s.Drain()
			return nil, nil, false, false
		}
		if withB {
			ob := s.Step(1)
			if ob.Kind == "blocked" {
				blocked = true
				s.Cancel(1)
				for k := 0; k < 20; k++ {
					ob = s.Step(1)
					if ob.Kind == "done" {
						bResp = ob.Resp
						break
					}
				}
			}
		}
		s.Drain()
		var fin []Resp
		for _, f := range final {
			fin = append(fin, e.Exec(f))
		}
		return fin, bResp, blocked, true
	}
	alone, _, _, okA := run(false)
	both, bResp, blocked, _ := run(true)
	c := Case{Store: mk.name, Tag: fmt.Sprintf("abandoned-%d-%d", ka, kb), Prog: []Req{ra, rb}, Obs: []Resp{{Status: 200, Kind: "none"}, {Status: 200, Kind: "none"}}}
	if !okA || !blocked {
		return c // B did not queue behind A (different objects): nothing to judge
	}
	if bResp == nil {
		c.Obs[1].Notes = append(c.Obs[1].Notes, "the abandoned request never returned")
		return c
	}
	c.Obs[1] = Resp{Status: bResp.Status, Kind: "none"}
	if bResp.Status >= 200 && bResp.Status < 300 {
		c.Obs[1].Notes = append(c.Obs[1].Notes, fmt.Sprintf("a request abandoned while it waited for the object lock was answered %d", bResp.Status))
	}
	canon := func(rs []Resp) string {
		rank := rankGens(rs)
		var sb []string
		for _, r := range rs {
			sb = append(sb, r.coq(rank))
		}
		return fmt.Sprint(sb)
	}
	if canon(alone) != canon(both) {
		c.Obs[1].Notes = append(c.Obs[1].Notes, "a request abandoned while it waited for the object lock changed the stored objects")
	}
	return c
}

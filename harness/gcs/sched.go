package main

// (adapted from harness/bt/sched.go)

import (
	"bytes"
	"context"
	"fmt"
	"runtime"
	"strconv"
	"strings"
	"sync"
	"sync/atomic"
	"time"

	"github.com/fullstorydev/emulators/storage/gcsemu"
)

// Cooperative scheduler: requests run in real goroutines which park at the yield points of the
// instrumented code (build tag verif); the harness releases one thread for exactly one step at a
// time and records what that step did: parked at the next yield point, returned a response, or
// did neither within the timeout (blocked on the table lock).

func goid() int64 {
	var buf [64]byte
	n := runtime.Stack(buf[:], false)
	// "goroutine 123 [running]:"
	b := buf[:n]
	b = b[len("goroutine "):]
	i := bytes.IndexByte(b, ' ')
	id, _ := strconv.ParseInt(string(b[:i]), 10, 64)
	return id
}

type sthread struct {
	arrive  chan string   // goroutine -> scheduler: parked at this point
	release chan struct{} // scheduler -> goroutine: continue
	done    chan Resp     // goroutine -> scheduler: request returned
	gid     int64         // goroutine running the current request
	parked  string        // point at which it is parked ("" = running or not started)
	running bool          // released and not yet arrived / done (possibly blocked on a lock)
	dead    bool          // declared hung: never stepped again
	todo    []Req
	cancel  context.CancelFunc // abandons the current request (its context ends)
}

var (
	registry sync.Map // goroutine id -> *sthread (no mutex: a lock wait here must not look like a table-lock wait)
	hookOnce sync.Once
)

func installHook() {
	hookOnce.Do(func() {
		gcsemu.VerifYield = func(point string) {
			if strings.HasPrefix(point, "fs.add.") && !parkInFileAdd.Load() {
				return
			}
			g := goid()
			if _, q := quietG.Load(g); q {
				return // a read the harness makes for itself inside a scheduled request
			}
			v, ok := registry.Load(g)
			if !ok {
				return // a goroutine the scheduler does not manage (sequential requests)
			}
			t := v.(*sthread)
			t.arrive <- point
			<-t.release
		}
	})
}

type Sched struct {
	e       *Emu
	threads []*sthread
	waiter  int  // thread whose goroutine is blocked on an object lock, or -1
	forced  int  // thread that must be stepped next (the waiter after a release), or -1
	ruleOff bool // the implementation did something the waiter rule cannot order (a lock holder blocked)
}

// parkInFileAdd: also park inside the file store's Add (between its three file operations)
var parkInFileAdd atomic.Bool

func NewSched(e *Emu, progs [][]Req) *Sched {
	installHook()
	s := &Sched{e: e, waiter: -1, forced: -1}
	for _, p := range progs {
		s.threads = append(s.threads, &sthread{todo: p})
	}
	return s
}

type Outcome struct {
	Kind  string `json:"kind"` // at | blocked | done | idle
	Point string `json:"point,omitempty"`
	Resp  *Resp  `json:"resp,omitempty"`
}

func (s *Sched) Step(i int) Outcome {
	if i >= len(s.threads) {
		return Outcome{Kind: "idle"}
	}
	t := s.threads[i]
	if t.dead {
		return Outcome{Kind: "idle"}
	}
	if !t.running && t.parked == "" {
		if len(t.todo) == 0 {
			return Outcome{Kind: "idle"}
		}
		// start the next request of this thread
		c := t.todo[0]
		t.arrive, t.release, t.done = make(chan string), make(chan struct{}), make(chan Resp, 1)
		t.running = true
		ctx, cancel := context.WithCancel(context.Background())
		t.cancel = cancel
		go func() {
			g := goid()
			atomic.StoreInt64(&t.gid, g)
			registry.Store(g, t)
			defer registry.Delete(g)
			ctxByG.Store(g, ctx)
			defer ctxByG.Delete(g)
			defer func() {
				if p := recover(); p != nil {
					t.done <- Resp{Status: 599, Kind: "none", Panic: fmt.Sprint(p)}
				}
			}()
			t.done <- s.e.ExecDirect(c)
		}()
	} else if t.parked != "" {
		t.parked = ""
		t.running = true
		t.release <- struct{}{}
	}
	// wait for the step's outcome: the thread parks at the next yield point, returns, or its
	// goroutine is seen waiting for a lock (runtime goroutine state) = blocked
	deadline := time.Now().Add(hangAfter)
	for {
		select {
		case p := <-t.arrive:
			t.parked, t.running = p, false
			return Outcome{Kind: "at", Point: p}
		case r := <-t.done:
			t.running = false
			t.todo = t.todo[1:]
			return Outcome{Kind: "done", Resp: &r}
		case <-time.After(150 * time.Microsecond):
		}
		gid := atomic.LoadInt64(&t.gid)
		if st := gstate(gid); lockWait(st) {
			// the wait must persist (a handler also takes short-lived mutexes on its way)
			stable := true
			for k := 0; k < 4 && stable; k++ {
				time.Sleep(300 * time.Microsecond)
				stable = lockWait(gstate(gid))
			}
			if !stable {
				continue
			}
			// confirm: still nothing arrived
			select {
			case p := <-t.arrive:
				t.parked, t.running = p, false
				return Outcome{Kind: "at", Point: p}
			case r := <-t.done:
				t.running = false
				t.todo = t.todo[1:]
				return Outcome{Kind: "done", Resp: &r}
			default:
			}
			return Outcome{Kind: "blocked"}
		}
		if time.Now().After(deadline) {
			t.dead = true
			for _, o := range s.threads {
				if o.running {
					o.dead = true // whatever waits behind a hung thread is lost too
				}
			}
			return Outcome{Kind: "done", Resp: &Resp{Status: 598, Kind: "none", Panic: "thread neither parked, returned nor blocked on a lock within " + hangAfter.String() + " (hang); it is at: " + whereIs(gid)}}
		}
	}
}

// Cancel ends the context of thread i's current request, as when its client gives up.
func (s *Sched) Cancel(i int) {
	if i < len(s.threads) && s.threads[i].cancel != nil {
		s.threads[i].cancel()
	}
}

// StepPref executes the scheduler preference "step thread i" under the waiter rule and reports every
// step actually executed through rec.  A goroutine that was seen blocked on a lock is not parked: it
// carries on by itself the moment the lock is released.  To keep executions deterministic (and equal
// to the model, where a blocked step changes nothing and the thread retries at its next step), while
// such a waiter exists only lock holders (and the waiter itself) are stepped, and right after a
// holder has released its lock the waiter is stepped before anything else.
func (s *Sched) StepPref(i int, rec func(int, Outcome)) {
	if s.forced >= 0 {
		w := s.forced
		s.forced = -1
		rec(w, s.stepTracked(w))
	}
	if i >= len(s.threads) {
		rec(i, Outcome{Kind: "idle"})
		return
	}
	if !s.ruleOff && s.waiter >= 0 && i != s.waiter && !s.holds(i) {
		return // skipped: would run concurrently with (or queue up behind) the waiter
	}
	rec(i, s.stepTracked(i))
}

func (s *Sched) stepTracked(i int) Outcome {
	was := s.holds(i)
	o := s.Step(i)
	if o.Kind == "blocked" && was {
		// a thread parked inside its locked section cannot block in the model: from here on the
		// schedule is followed as it stands and the model comparison reports the difference
		s.ruleOff, s.waiter, s.forced = true, -1, -1
		return o
	}
	if o.Kind == "blocked" {
		s.waiter = i
	} else if i == s.waiter {
		s.waiter = -1
	}
	if was && !s.holds(i) && s.waiter >= 0 && s.waiter != i {
		s.forced = s.waiter
	}
	return o
}

// holds: thread i is parked inside a locked section (every yield point of a mutating handler and of
// the file store's Add lies inside locks.Run; the yield points of the listing and of the GETs do not)
func (s *Sched) holds(i int) bool {
	p := ""
	if i < len(s.threads) {
		p = s.threads[i].parked
	}
	return p != "" && p != "gcs.list.walked" && p != "gcs.get.fetched"
}

// gstate returns the runtime's wait state of a goroutine ("running", "sync.RWMutex.Lock", "chan send", ...).
func gstate(gid int64) string {
	buf := make([]byte, 1<<16)
	for {
		n := runtime.Stack(buf, true)
		if n < len(buf) {
			buf = buf[:n]
			break
		}
		buf = make([]byte, 2*len(buf))
	}
	needle := []byte(fmt.Sprintf("goroutine %d [", gid))
	i := bytes.Index(buf, needle)
	if i < 0 {
		return ""
	}
	rest := buf[i+len(needle):]
	j := bytes.IndexByte(rest, ']')
	if j < 0 {
		return ""
	}
	state := string(rest[:j])
	// this goroutine's frames end at the next blank line
	end := bytes.Index(rest, []byte("\n\n"))
	frames := rest
	if end >= 0 {
		frames = rest[:end]
	}
	// the per-object lock is a one-slot channel: a waiter sits in the select of countedLock.Lock
	if bytes.Contains(frames, []byte("gcsutil.(*countedLock).Lock")) && strings.Contains(state, "select") {
		return "Lock (object lock: " + state + ")"
	}
	return "running"
}

func lockWait(state string) bool {
	return strings.Contains(state, "Lock") || strings.Contains(state, "semacquire")
}

// Drain lets every thread finish (round robin) so that no goroutine is left behind.
func (s *Sched) Drain() {
	for round := 0; round < 10000; round++ {
		busy := false
		for i, t := range s.threads {
			if t.running || t.parked != "" || len(t.todo) > 0 {
				busy = true
				s.StepPref(i, func(int, Outcome) {})
			}
		}
		if !busy {
			return
		}
	}
}

// hangAfter: how long a released thread may take to park, return or block before it is declared hung
// (generous: a loaded machine must not turn a slow step into a hang)
const hangAfter = 20 * time.Second

// whereIs returns the top frames of a goroutine, for the hang report
func whereIs(gid int64) string {
	buf := make([]byte, 1<<20)
	buf = buf[:runtime.Stack(buf, true)]
	needle := []byte(fmt.Sprintf("goroutine %d [", gid))
	i := bytes.Index(buf, needle)
	if i < 0 {
		return "(gone)"
	}
	rest := buf[i:]
	if end := bytes.Index(rest, []byte("\n\n")); end >= 0 {
		rest = rest[:end]
	}
	if len(rest) > 900 {
		rest = rest[:900]
	}
	return string(rest)
}

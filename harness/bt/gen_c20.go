package main

import (
	"bytes"
	"encoding/json"
	"fmt"
	"math/rand"
	"os"
	"os/exec"
	"strings"
	"sync"
	"sync/atomic"
	"time"

	"github.com/fullstorydev/emulators/bigtable/bttest"
)

// C20 (Bigtable half):
//  (a) request programs biased towards invalid arguments, compared with the model (which must give
//      the same status) and watched for panics / hangs;
//  (b) wire-representable degenerate requests to every RPC (zero-value messages, missing names,
//      empty oneofs), oracle only: returns a gRPC status, no panic, stored data intact;
//  (c) concurrent admin + data traffic under the race detector (a separate -race binary).

func zeroValueCalls() []Call {
	t := tname(parentA, "t1")
	return []Call{
		{Req: Req{Kind: "create", Parent: "", Tid: ""}},
		{Req: Req{Kind: "create", Parent: parentA, Tid: "t1"}},
		{Req: Req{Kind: "delete", Table: ""}},
		{Req: Req{Kind: "get", Table: ""}},
		{Req: Req{Kind: "list", Parent: ""}},
		{Req: Req{Kind: "modify", Table: t}},
		{Req: Req{Kind: "modify", Table: t, Mods: []FMod{{Kind: "none", ID: ""}, {Kind: "drop", ID: ""}}}},
		{Req: Req{Kind: "modify", Table: t, Mods: []FMod{{Kind: "create", ID: "", Rule: &GcRule{Kind: "maxversions", N: -5}}}}},
		{Req: Req{Kind: "drop", Table: t}},
		{Req: Req{Kind: "drop", Table: ""}},
		{Req: Req{Kind: "mutate", Table: t}},
		{Req: Req{Kind: "mutate", Table: t, Key: []byte("k"), Muts: []Mutation{{Kind: "unset"}}}},
		{Req: Req{Kind: "mutate", Table: t, Key: []byte("k"), Muts: []Mutation{{Kind: "set"}}}},
		{Req: Req{Kind: "mutate", Table: t, Key: []byte("k"), Muts: []Mutation{{Kind: "delcol", HasTR: true, S: -9223372036854775808, E: 9223372036854775807}}}},
		{Req: Req{Kind: "mutaterows", Table: t}},
		{Req: Req{Kind: "mutaterows", Table: t, Entries: []Entry{{}}}},
		{Req: Req{Kind: "cam", Table: t}},
		{Req: Req{Kind: "cam", Table: t, Key: []byte("k"), Pred: &Filter{Kind: "chain"}}},
		{Req: Req{Kind: "cam", Table: t, Key: []byte("k"), Pred: &Filter{Kind: "condition", P: &Filter{Kind: "rowlimit", N: -5}}}},
		{Req: Req{Kind: "rmw", Table: t}},
		{Req: Req{Kind: "rmw", Table: t, Key: []byte("k"), Rules: []Rule{{Kind: "unset"}}}},
		{Req: Req{Kind: "rmw", Table: t, Key: []byte("k"), Rules: []Rule{{Kind: "incr", Fam: "cf", Amt: -9223372036854775808}, {Kind: "incr", Fam: "cf", Amt: -9223372036854775808}}}},
		{Req: Req{Kind: "read", Table: ""}},
		{Req: Req{Kind: "read", Table: t, Limit: -9223372036854775808}},
		{Req: Req{Kind: "read", Table: t, Limit: 9223372036854775807, Filter: &Filter{Kind: "rowoffset", N: 50000}}},
		{Req: Req{Kind: "read", Table: t, Filter: &Filter{Kind: "collimit", N: -1}}},
		{Req: Req{Kind: "read", Table: t, Filter: &Filter{Kind: "interleave", Subs: []*Filter{{Kind: "pass", Flag: true}}}}},
		{Req: Req{Kind: "read", Table: t, Filter: &Filter{Kind: "tsrange", TS: 1, TE: -1}}},
		{Req: Req{Kind: "read", Table: t, Filter: &Filter{Kind: "valregex", Rx: &Regex{Bad: true}}}},
		{Req: Req{Kind: "read", Table: t, Ranges: []RowRange{{S: Bound{Kind: "closed", K: []byte("z")}, E: Bound{Kind: "closed", K: []byte("a")}}}}},
		{Req: Req{Kind: "read", Table: t, Ranges: []RowRange{{S: Bound{Kind: "open", K: []byte{}}, E: Bound{Kind: "closed", K: []byte{}}}}}},
		{Req: Req{Kind: "sample", Table: ""}},
		{Req: Req{Kind: "gc", Table: t}},
	}
}

func c20Seed() []Call {
	t := tname(parentA, "t1")
	return []Call{
		{Req: Req{Kind: "create", Parent: parentA, Tid: "t1", Fams: []FamDef{{Name: "cf", Rule: &GcRule{Kind: "maxversions", N: 3}}, {Name: "cf2"}}}, Now: 1000},
		{Req: Req{Kind: "mutate", Table: t, Key: []byte("seed-1"), Muts: []Mutation{{Kind: "set", Fam: "cf", Q: []byte("q"), Ts: 1000, V: be64(7)}, {Kind: "set", Fam: "cf2", Q: []byte{0, 255}, Ts: 2000, V: []byte("keep")}}}, Now: 1000},
		{Req: Req{Kind: "mutate", Table: t, Key: []byte("seed-2"), Muts: []Mutation{{Kind: "set", Fam: "cf", Q: []byte(""), Ts: 0, V: []byte("x")}}}, Now: 1000},
	}
}

func genC20(out, tier string, rng *rand.Rand) {
	sink := NewSink(out, btPrelude, "(list call * list bresp)", "check_all", 40)
	// (a) programs biased towards invalid arguments, against the model
	n, length := 150, 30
	if tier == "thorough" {
		n, length = 3000, 50
	}
	var tasks []Task
	for i := 0; i < n; i++ {
		prog := genProgram(rng, "C17", length)
		for _, en := range engines() {
			tasks = append(tasks, Task{en, "program", prog})
		}
	}
	// (b) degenerate requests: the model covers these request kinds too, so they are compared with
	// it as well; each is followed by a read of the seeded table (data intact)
	t := tname(parentA, "t1")
	for _, en := range engines() {
		for _, z := range zeroValueCalls() {
			if z.Req.Kind == "drop" && z.Req.Table == t {
				continue // a valid request for "no target" is an error anyway; kept out to protect the seed
			}
			prog := append(append([]Call{}, c20Seed()...), z, Call{Req: Req{Kind: "read", Table: t}, Now: 1000}, Call{Req: Req{Kind: "get", Table: t}, Now: 1000})
			tasks = append(tasks, Task{en, "degenerate", prog})
		}
	}
	// (b') table ids and parents outside the documented formats, compared with the model's validation;
	// each followed by a listing and reads of the seeded table
	for _, en := range engines() {
		for _, nm := range [][2]string{{parentA, ""}, {parentA, "t 1"}, {parentA, "-t"}, {parentA, ".t"}, {parentA, "t.1-_x"}, {parentA, "T1"}, {parentA, "t1/"}, {parentA, "t2/../t1"}, {parentA, ".."}, {parentA, "."},
			{parentA, "./t1"}, {parentA, "t1/sub"}, {parentA, "t1.table.proto"}, {parentA, "x.table.proto.tmp"}, {parentA, "table.proto"}, {parentA, "a.table.protox"}, {parentA, strings.Repeat("L", 50)}, {parentA, strings.Repeat("L", 51)}, {parentA, strings.Repeat("L", 255)}, {parentA, "nul\x00byte"}, {parentA, "caf\xc3\xa9"}, {"", "t9"}, {".", "t9"}, {"/abs", "t9"}, {"../x", "t9"}, {"plain", "t9"}, {"projects/p/instances", "t9"}, {"projects//instances/i", "t9"}, {"projects/p/instances/i/", "t9"}, {"projects/p/instances/i/tables/t1", "t9"}, {"projects/../instances/i", "t9"}, {"projects/p/instances/.", "t9"}, {"project/p/instances/i", "t9"}, {"projects/p/instance/i", "t9"}, {"projects/..p/instances/i.", "t9"}, {parentB, "t9"}} {
			mk := Call{Req: Req{Kind: "create", Parent: nm[0], Tid: nm[1], Fams: []FamDef{{Name: "other"}}}, Now: 1}
			prog := append(append([]Call{}, c20Seed()...), mk, Call{Req: Req{Kind: "get", Table: tname(nm[0], nm[1])}, Now: 1}, Call{Req: Req{Kind: "read", Table: t}, Now: 1000}, Call{Req: Req{Kind: "get", Table: t}, Now: 1000})
			tasks = append(tasks, Task{en, "table-names", prog})
		}
	}
	RunTasks(sink, tasks, progNontrivial)
	// counts near the int32 limit: the model's unary arithmetic cannot evaluate them, so these are
	// judged by the oracle only (a status comes back, the seeded rows are still served)
	for _, en := range engines() {
		for _, z := range []Call{
			{Req: Req{Kind: "read", Table: t, Limit: 9223372036854775807, Filter: &Filter{Kind: "rowoffset", N: 50000}}},
			{Req: Req{Kind: "read", Table: t, Filter: &Filter{Kind: "rowlimit", N: 2147483647}}},
			{Req: Req{Kind: "read", Table: t, Filter: &Filter{Kind: "collimit", N: 2147483647}}},
			{Req: Req{Kind: "cam", Table: t, Key: []byte("seed-1"), Pred: &Filter{Kind: "condition", P: &Filter{Kind: "rowlimit", N: -2147483648}}}},
		} {
			st, cleanup := en.mk()
			e := NewEmu(st)
			var obs []Resp
			prog := append(append([]Call{}, c20Seed()...), z, Call{Req: Req{Kind: "read", Table: t}, Now: 1000})
			for _, c := range prog {
				obs = append(obs, e.Exec(c))
			}
			if last := obs[len(obs)-1]; last.Code != 0 || len(last.Rows) != 2 {
				obs[len(obs)-1].Notes = append(obs[len(obs)-1].Notes, "seeded rows are not served after an extreme-count request")
			}
			closeEmu(e)
			cleanup()
			pc := Case{Store: en.name, Tag: "extreme-count", Prog: prog, Obs: obs}
			js, _ := json.Marshal(pc)
			sink.AddOracleOnly(pc, string(js), js, true)
		}
	}
	// table ids the filesystem rejects (disk engine): oracle only (finding BT-16)
	for _, id := range []string{"nul\x00byte", strings.Repeat("L", 300), "a/../../b", "."} {
		st, cleanup := engines()[2].mk()
		e := NewEmu(st)
		r := e.Exec(Call{Req: Req{Kind: "create", Parent: parentA, Tid: id, Fams: []FamDef{{Name: "cf"}}}, Now: 1})
		pc := Case{Store: "leveldb-disk", Tag: "weird-table-id", Prog: []Call{{Req: Req{Kind: "create", Parent: parentA, Tid: id}}}, Obs: []Resp{r}}
		js, _ := json.Marshal(pc)
		sink.AddOracleOnly(pc, string(js), js, true)
		closeEmu(e)
		cleanup()
	}
	// table ids that name another table's files on the disk engine ("t2/../t1", "./t1", ...): whatever
	// the answer, the seeded table must keep its rows, on the running server and after a restart
	for _, id := range []string{"t2/../t1", "./t1", "t1/", "t1/.", "../tables/t1", "t1/sub", "..", "../../../i/tables/t1", "t1.table.proto", "t1.table.proto.tmp"} {
		st, cleanup := engines()[2].mk()
		e := NewEmu(st)
		var obs []Resp
		prog := append(append([]Call{}, c20Seed()...),
			Call{Req: Req{Kind: "create", Parent: parentA, Tid: id, Fams: []FamDef{{Name: "other"}}}, Now: 1},
			Call{Req: Req{Kind: "read", Table: tname(parentA, "t1")}, Now: 1000})
		for _, c := range prog {
			obs = append(obs, e.Exec(c))
		}
		last := &obs[len(obs)-1]
		if last.Code != 0 || len(last.Rows) != 2 {
			last.Notes = append(last.Notes, fmt.Sprintf("seeded rows are not served after CreateTable with the table id %q", id))
		}
		if ds, ok := st.(bttest.LeveldbDiskStorage); ok {
			pr := probeImage(ds.Root) // GetTable + ReadRows of the candidate tables on a restarted copy
			if len(pr) < 2 || pr[0].Code != 0 || pr[1].Code != 0 || len(pr[1].Rows) != 2 || len(pr[0].Fams) != 2 {
				last.Notes = append(last.Notes, fmt.Sprintf("after a restart the seeded table is not served as stored (CreateTable with the table id %q)", id))
			}
		}
		closeEmu(e)
		cleanup()
		pc := Case{Store: "leveldb-disk", Tag: "table-id-traversal", Prog: prog, Obs: obs}
		js, _ := json.Marshal(pc)
		sink.AddOracleOnly(pc, string(js), js, true)
	}
	// a CreateTable that is acknowledged must be there after a restart, whatever the id looks like
	// (ids near the file-name limit: the directory name fits, "<id>.table.proto" does not)
	for _, n := range []int{40, 50, 51, 200, 243, 244, 250, 255} {
		id := strings.Repeat("L", n)
		st, cleanup := engines()[2].mk()
		e := NewEmu(st)
		mk := Call{Req: Req{Kind: "create", Parent: parentA, Tid: id, Fams: []FamDef{{Name: "cf"}}}, Now: 1}
		wr := Call{Req: Req{Kind: "mutate", Table: tname(parentA, id), Key: []byte("k"), Muts: []Mutation{{Kind: "set", Fam: "cf", Q: []byte("q"), Ts: 1000, V: []byte("v")}}}, Now: 1000}
		prog := []Call{mk, wr}
		obs := []Resp{e.Exec(mk), e.Exec(wr)}
		if obs[0].Code == 0 && obs[1].Code == 0 {
			if ds, ok := st.(bttest.LeveldbDiskStorage); ok {
				cp, err := os.MkdirTemp(tmpRoot, "img")
				if err == nil {
					if copyTree(ds.Root, cp) == nil {
						e2 := NewEmu(bttest.LeveldbDiskStorage{Root: cp, ErrLog: func(error, string) {}})
						g := e2.ExecFast(Call{Req: Req{Kind: "get", Table: tname(parentA, id)}})
						r := e2.ExecFast(Call{Req: Req{Kind: "read", Table: tname(parentA, id)}})
						if g.Code != 0 || r.Code != 0 || len(r.Rows) != 1 {
							obs[1].Notes = append(obs[1].Notes, fmt.Sprintf("a table with a %d-character id was created and written (both acknowledged) but is not served after a restart", n))
						}
						closeEmu(e2)
					}
					os.RemoveAll(cp)
				}
			}
		}
		closeEmu(e)
		cleanup()
		pc := Case{Store: "leveldb-disk", Tag: "long-table-id", Prog: prog, Obs: obs}
		js, _ := json.Marshal(pc)
		sink.AddOracleOnly(pc, string(js), js, true)
	}
	// DropRowRange(all) while a scan is parked at its hand-over (finding BT-17): forced schedule
	for _, en := range leveldbEngines() {
		// a table large enough to live in leveldb table files (the iterator then reads through a
		// table reader that Clear's Close releases)
		setup := bigTableSetup()
		scan := Call{Req: Req{Kind: "read", Table: concTable}, Now: 1}
		drop := Call{Req: Req{Kind: "drop", Table: concTable, All: true}, Now: 1}
		cc := runConc(en, setup, [][]Call{{scan}, {drop}}, []int{0, 0, 1, 0, 0, 0}, nil, nil, "dropall-under-scan")
		pc := cc.pseudo()
		js, _ := json.Marshal(cc)
		sink.AddOracleOnly(pc, string(js), js, true)
		// DeleteTable while requests that have already looked the table up are parked: a scan at its
		// hand-over, a write before it takes the table lock, a read-modify-write likewise.  Whatever they
		// answer, nothing may panic or hang (oracle only: the sequential model has no opinion on requests
		// that outlive their table)
		del := Call{Req: Req{Kind: "delete", Table: concTable}, Now: 1}
		wr := Call{Req: Req{Kind: "mutate", Table: concTable, Key: scanKey(3), Muts: []Mutation{{Kind: "set", Fam: "cf", Q: []byte("late"), Ts: 1000, V: []byte("w")}}}, Now: 5000}
		rmw := Call{Req: Req{Kind: "rmw", Table: concTable, Key: scanKey(4), Rules: []Rule{{Kind: "append", Fam: "cf", Q: []byte("late"), V: []byte("+")}}}, Now: 5000}
		for _, sc := range []struct {
			threads [][]Call
			sched   []int
			tag     string
		}{
			{[][]Call{{scan}, {drop, drop}}, []int{0, 0, 1, 1, 0, 0, 0}, "two-clears-under-scan"},
			{[][]Call{{scan}, {drop, wr, drop}}, []int{0, 0, 1, 0, 1, 1, 1, 0, 1, 0, 0}, "clear-write-clear-under-scan"},
			{[][]Call{{scan}, {del}}, []int{0, 0, 1, 0, 0, 0}, "delete-table-under-scan"},
			{[][]Call{{wr}, {del}}, []int{0, 1, 0, 0, 0}, "delete-table-before-write-lock"},
			{[][]Call{{rmw}, {del}, {scan}}, []int{0, 2, 2, 1, 0, 2, 0, 2}, "delete-table-under-rmw-and-scan"},
		} {
			cd := runConc(en, setup, sc.threads, sc.sched, nil, nil, sc.tag)
			if cd == nil {
				continue
			}
			pd := cd.pseudo()
			jd, _ := json.Marshal(cd)
			sink.AddOracleOnly(pd, string(jd), jd, true)
		}
	}
	// a streamed read whose client goes away (Send fails at the first, second, last message), alone and
	// with a second reader parked mid-scan: whatever it answers, the emulator keeps serving
	for _, en := range engines() {
		for _, failAt := range []int{1, 2, 24} {
			st, cleanup := en.mk()
			e := NewEmu(st)
			var obs []Resp
			prog := append(append([]Call{}, bigTableSetup()...),
				Call{Req: Req{Kind: "read", Table: concTable, FailSend: failAt}, Now: 1},
				Call{Req: Req{Kind: "mutate", Table: concTable, Key: scanKey(40), Muts: []Mutation{{Kind: "set", Fam: "cf", Q: []byte("after"), Ts: 1000, V: []byte("w")}}}, Now: 5000},
				Call{Req: Req{Kind: "read", Table: concTable, Keys: [][]byte{scanKey(40)}}, Now: 1})
			for _, c := range prog {
				obs = append(obs, e.Exec(c))
			}
			last := &obs[len(obs)-1]
			if last.Code != 0 || len(last.Rows) != 1 {
				last.Notes = append(last.Notes, "after a streamed read whose client went away, a write and a read are not served")
			}
			closeEmu(e)
			cleanup()
			pc := Case{Store: en.name, Tag: "abandoned-stream", Prog: prog[len(prog)-3:], Obs: obs[len(obs)-3:]}
			js, _ := json.Marshal(pc)
			sink.AddOracleOnly(pc, string(js), js, true)
		}
	}
	// (c) concurrent mixes under the race detector
	if bin := os.Getenv("VERIF_RACE_BIN_BT"); bin != "" {
		secs := "6"
		if tier == "thorough" {
			secs = "40"
		}
		for _, scenario := range []string{"mix", "dropall-under-scan"} {
			cmd := exec.Command(bin, "-prop", "race", "-tier", secs, "-slice", scenario, "-out", out)
			var stderr, stdout bytes.Buffer
			cmd.Stderr, cmd.Stdout = &stderr, &stdout
			err := cmd.Run()
			var notes []string
			var panicText string
			if n := strings.Count(stderr.String(), "WARNING: DATA RACE"); n > 0 {
				i := strings.Index(stderr.String(), "WARNING: DATA RACE")
				notes = append(notes, fmt.Sprintf("%d data race report(s); first: %.900s", n, stderr.String()[i:]))
			}
			if strings.Contains(stderr.String(), "fatal error:") {
				i := strings.Index(stderr.String(), "fatal error:")
				panicText = fmt.Sprintf("fatal runtime error: %.300s", stderr.String()[i:])
			}
			var rep struct {
				Requests int      `json:"requests"`
				Panics   []string `json:"panics"`
				Hangs    int      `json:"hangs"`
			}
			_ = json.Unmarshal(stdout.Bytes(), &rep)
			if len(rep.Panics) > 0 {
				panicText = "handler panicked under concurrent traffic: " + rep.Panics[0]
			}
			if rep.Hangs > 0 {
				notes = append(notes, fmt.Sprintf("%d request(s) did not return", rep.Hangs))
			}
			if err != nil && panicText == "" && len(notes) == 0 {
				notes = append(notes, "race binary failed: "+err.Error()+" "+stderr.String()[:min(300, len(stderr.String()))])
			}
			pc := Case{Store: "leveldb-mem", Tag: "race-" + scenario, Prog: []Call{{Req: Req{Kind: "concurrent-mix"}}}, Obs: []Resp{{Code: 0, Kind: "none", Notes: notes, Panic: panicText}}}
			js, _ := json.Marshal(pc)
			sink.stats.Requests += rep.Requests
			sink.AddOracleOnly(pc, string(js), js, rep.Requests > 0)
		}
	}
	sink.Close(fmt.Sprintf("(a) %d random request programs with invalid arguments mixed in, (b) %d degenerate wire-representable requests (zero-value messages, empty names and keys, empty oneofs, extreme numbers, invalid filters and ranges) each followed by reads of the seeded table, all on three engines and compared with the model; table ids the filesystem rejects on the disk engine (oracle only); (c) concurrent admin + data traffic (create/delete table while reading, schema changes while fetching the schema, drops during scans, GC) for a few seconds under the Go race detector; judged by: returns a status, no panic, no hang, no race report, seeded data intact; non-trivial = a successful write and a non-empty read (programs)", n, len(zeroValueCalls())), false)
}

func min(a, b int) int {
	if a < b {
		return a
	}
	return b
}

// ---------------- the race-detector binary: h_bt_race -prop race -tier <seconds> -slice <scenario> ----------------

func raceMain(secs int, scenario string) {
	st := bttest.LeveldbMemStorage{}
	e := NewEmu(st)
	t := tname(parentA, "t1")
	e.Exec(Call{Req: Req{Kind: "create", Parent: parentA, Tid: "t1", Fams: []FamDef{{Name: "cf", Rule: &GcRule{Kind: "maxversions", N: 2}}, {Name: "cf2"}}}, Now: 1000})
	for i := 0; i < 400; i++ {
		var ms []Mutation
		for q := 0; q < 5; q++ {
			ms = append(ms, Mutation{Kind: "set", Fam: "cf", Q: []byte(fmt.Sprint("q", q)), Ts: 1000, V: []byte("v")})
		}
		e.Exec(Call{Req: Req{Kind: "mutate", Table: t, Key: []byte(fmt.Sprintf("row-%04d", i)), Muts: ms}, Now: 1000})
	}
	e.concurrent = true
	var requests, hangs int64
	var pmu sync.Mutex
	var panics []string
	deadline := time.Now().Add(time.Duration(secs) * time.Second)
	var wg sync.WaitGroup
	worker := func(seed int64, kinds []int) {
		defer wg.Done()
		rng := rand.New(rand.NewSource(seed))
		for time.Now().Before(deadline) {
			var c Call
			switch kinds[rng.Intn(len(kinds))] {
			case 0:
				c = Call{Req: Req{Kind: "mutate", Table: t, Key: []byte(fmt.Sprintf("row-%04d", rng.Intn(450))), Muts: []Mutation{{Kind: "set", Fam: "cf", Q: []byte("q1"), Ts: -1, V: []byte("w")}}}, Now: int64(2000 + rng.Intn(5000)*1000)}
			case 1:
				c = Call{Req: Req{Kind: "read", Table: t}}
			case 2:
				c = Call{Req: Req{Kind: "get", Table: t}}
			case 3:
				id := fmt.Sprint("fam", rng.Intn(3))
				kind := []string{"create", "drop", "update"}[rng.Intn(3)]
				c = Call{Req: Req{Kind: "modify", Table: t, Mods: []FMod{{Kind: kind, ID: id, Rule: &GcRule{Kind: "maxversions", N: 1}}}}}
			case 4:
				c = Call{Req: Req{Kind: "create", Parent: parentA, Tid: "t2", Fams: []FamDef{{Name: "cf"}}}}
			case 5:
				c = Call{Req: Req{Kind: "delete", Table: tname(parentA, "t2")}}
			case 6:
				c = Call{Req: Req{Kind: "list", Parent: parentA}}
			case 7:
				c = Call{Req: Req{Kind: "rmw", Table: t, Key: []byte("counter"), Rules: []Rule{{Kind: "incr", Fam: "cf2", Q: []byte("n"), Amt: 1}}}, Now: 5000}
			case 8:
				c = Call{Req: Req{Kind: "sample", Table: t}}
			case 9:
				c = Call{Req: Req{Kind: "drop", Table: t, HasPfx: true, Prefix: []byte(fmt.Sprintf("row-04%d", rng.Intn(5)))}}
			case 10:
				c = Call{Req: Req{Kind: "gc", Table: t}, Now: 9000000}
			case 11:
				c = Call{Req: Req{Kind: "mutate", Table: tname(parentA, "t2"), Key: []byte("k"), Muts: []Mutation{{Kind: "set", Fam: "cf", Q: []byte("q"), Ts: 1000, V: []byte("w")}}}}
			case 12:
				c = Call{Req: Req{Kind: "drop", Table: t, All: true}}
			case 13:
				c = Call{Req: Req{Kind: "read", Table: tname(parentA, "t2")}}
			}
			r := e.Exec(c)
			atomic.AddInt64(&requests, 1)
			if r.Code == 98 {
				atomic.AddInt64(&hangs, 1)
			}
			if r.Panic != "" && r.Code == 99 {
				pmu.Lock()
				if len(panics) < 5 {
					panics = append(panics, c.Req.Kind+": "+r.Panic)
				}
				pmu.Unlock()
			}
		}
	}
	mixes := [][]int{{0, 1, 2, 3, 7}, {1, 2, 3, 6, 8}, {4, 5, 6, 11, 13}, {0, 9, 10, 1}, {2, 3, 0, 7}, {1, 8, 10, 9}}
	if scenario == "dropall-under-scan" {
		mixes = [][]int{{1}, {1}, {12, 0}, {0}}
	}
	for i, m := range mixes {
		wg.Add(1)
		go worker(int64(i+1), m)
	}
	wg.Wait()
	b, _ := json.Marshal(map[string]interface{}{"requests": requests, "panics": panics, "hangs": hangs})
	fmt.Println(string(b))
}

package main

import (
	"bufio"
	"encoding/json"
	"fmt"
	"os"
	"os/exec"
	"path/filepath"
	"runtime"
	"sync"
)

// The exhaustive RowSet enumeration of C03 (mirrors Emu.BT.EnumC03): every set of <= 2 ranges plus
// <= 1 key, bounds from the 7-key adversarial universe, each bound unset / closed / open, on a table
// holding all 7 keys; one number per request.

var enumUniverse = [][]byte{[]byte("a"), []byte("a\x00"), []byte("a\x00\x00"), []byte("ab"), []byte("b"), {0}, {0xff}}

func enumBound(i int) Bound {
	switch {
	case i == 0:
		return Bound{Kind: "unset"}
	case i <= 7:
		return Bound{Kind: "closed", K: enumUniverse[i-1]}
	}
	return Bound{Kind: "open", K: enumUniverse[i-8]}
}
func enumRange(i int) RowRange { return RowRange{S: enumBound(i / 15), E: enumBound(i % 15)} }
func enumRanges(i int) []RowRange {
	switch {
	case i == 0:
		return nil
	case i <= 225:
		return []RowRange{enumRange(i - 1)}
	}
	j := i - 226
	return []RowRange{enumRange(j / 225), enumRange(j % 225)}
}

const enumRangeSets = 1 + 225 + 225*225

func enumKeys(i int) [][]byte {
	if i == 0 {
		return nil
	}
	return [][]byte{enumUniverse[i-1]}
}

func enumEncode(r Resp) (int64, string) {
	if r.Code == 0 && r.Kind == "rows" {
		acc := int64(0)
		note := ""
		for _, row := range r.Rows {
			idx := 0
			for i, k := range enumUniverse {
				if string(k) == string(row.Key) {
					idx = i + 1
				}
			}
			acc = acc*8 + int64(idx)
			// the content of every row is fixed: one cell f:q@1000 = key
			if len(row.Fams) != 1 || row.Fams[0].Name != "f" || len(row.Fams[0].Cols) != 1 || len(row.Fams[0].Cols[0].Cells) != 1 ||
				string(row.Fams[0].Cols[0].Cells[0].V) != string(row.Key) || row.Fams[0].Cols[0].Cells[0].Ts != 1000 {
				note = "row content differs from what was stored"
			}
		}
		if len(r.Notes) > 0 {
			note = r.Notes[0]
		}
		return 10 + acc, note
	}
	if r.Code == 3 {
		return 1, ""
	}
	return 2 + int64(r.Code), ""
}

type EnumCase struct {
	Store  string  `json:"store"`
	Tag    string  `json:"tag"`
	RS0    int     `json:"rs0"`
	Count  int     `json:"count"`
	Limits []int64 `json:"limits"`
	Obs    []int64 `json:"obs"`
	Notes  []string `json:"notes,omitempty"`
}

func (c *EnumCase) coq() string {
	xs := make([]string, len(c.Obs))
	for i, o := range c.Obs {
		xs[i] = cN(int(o))
	}
	return fmt.Sprintf("(%s, %d%%nat, %s)", cN(c.RS0), c.Count, cList(xs))
}

const enumPrelude = `From Coq Require Import List NArith ZArith.
Import ListNotations.
From Emu.BT Require Import EnumC03.
`

func runEnumBlock(e *Emu, table string, rs0, count int, limits []int64, store string) *EnumCase {
	c := &EnumCase{Store: store, Tag: "enum", RS0: rs0, Count: count, Limits: limits}
	for rs := rs0; rs < rs0+count; rs++ {
		ranges := enumRanges(rs)
		for k := 0; k < 8; k++ {
			for _, l := range limits {
				r := e.ExecFast(Call{Req: Req{Kind: "read", Table: table, Keys: enumKeys(k), Ranges: ranges, Limit: l}, Now: 1000})
				code, note := enumEncode(r)
				c.Obs = append(c.Obs, code)
				if note != "" && len(c.Notes) < 3 {
					c.Notes = append(c.Notes, fmt.Sprintf("rs=%d key=%d limit=%d: %s", rs, k, l, note))
				}
			}
		}
	}
	return c
}

// genEnum appends the enumeration to a sink as shard-sized cases (variant "enum").
func genEnum(sink *Sink, tier string) {
	checker := "check_enum_quick"
	if tier == "thorough" {
		checker = "check_enum_thorough"
	}
	jobs := enumJobs(tier)
	// The Go runtime serialises part of this workload (iterator finalizers, GC), so the blocks are
	// spread over worker PROCESSES: h_bt -prop enumworker -slice i/n writes its blocks as JSON lines.
	results := make([]*EnumCase, len(jobs))
	nproc := runtime.NumCPU()
	var wg sync.WaitGroup
	for w := 0; w < nproc; w++ {
		wg.Add(1)
		go func(w int) {
			defer wg.Done()
			outf := filepath.Join(sink.dir, fmt.Sprintf("enum_%d.jsonl", w))
			cmd := exec.Command(os.Args[0], "-prop", "enumworker", "-tier", tier, "-slice", fmt.Sprintf("%d/%d", w, nproc), "-out", outf)
			cmd.Env = append(os.Environ(), "GOMAXPROCS=2")
			if b, err := cmd.CombinedOutput(); err != nil {
				panic(fmt.Sprintf("enum worker %d: %v\n%s", w, err, b))
			}
			f, err := os.Open(outf)
			if err != nil {
				panic(err)
			}
			defer f.Close()
			defer os.Remove(outf)
			sc := bufio.NewScanner(f)
			sc.Buffer(make([]byte, 1<<20), 1<<28)
			for sc.Scan() {
				var rec struct {
					Job  int       `json:"job"`
					Case *EnumCase `json:"case"`
				}
				if err := json.Unmarshal(sc.Bytes(), &rec); err != nil {
					panic(err)
				}
				results[rec.Job] = rec.Case
			}
		}(w)
	}
	wg.Wait()
	for _, c := range results {
		js, _ := json.Marshal(c)
		pc := Case{Store: c.Store, Tag: "enum"}
		if len(c.Notes) > 0 {
			pc.Prog = []Call{{Req: Req{Kind: "read"}}}
			pc.Obs = []Resp{{Code: 0, Kind: "none", Notes: c.Notes}}
		}
		sink.stats.Requests += len(c.Obs)
		sink.AddPreV("enum", checker, "(N * nat * list N)", pc, c.coq(), js, true)
	}
}

// enumBlock: range sets per case; a case's observation list must stay small enough for Coq's parser
// (about 25 000 numbers): 1600 x 8 keys x 2 limits, 500 x 8 x 6.
func enumBlock(tier string) int {
	if tier == "thorough" {
		return 500
	}
	return 1600
}

func enumJobs(tier string) (jobs []struct {
	en  Engine
	rs0 int
}) {
	block := enumBlock(tier)
	for _, en := range engines() {
		for rs0 := 0; rs0 < enumRangeSets; rs0 += block {
			jobs = append(jobs, struct {
				en  Engine
				rs0 int
			}{en, rs0})
		}
	}
	return jobs
}

// enumWorker runs the jobs i, i+n, i+2n, ... and writes them as JSON lines.
func enumWorker(tier, slice, outf string) {
	var i, n int
	fmt.Sscanf(slice, "%d/%d", &i, &n)
	limits := []int64{0, 2}
	if tier == "thorough" {
		limits = []int64{0, 1, 2, 3, 7, 8}
	}
	f, err := os.Create(outf)
	if err != nil {
		panic(err)
	}
	defer f.Close()
	w := bufio.NewWriter(f)
	defer w.Flush()
	jobs := enumJobs(tier)
	for j := i; j < len(jobs); j += n {
		st, cleanup := jobs[j].en.mk()
		e := NewEmu(st)
		e.Exec(Call{Req: Req{Kind: "create", Parent: parentA, Tid: "t", Fams: []FamDef{{Name: "f"}}}, Now: 1000})
		for _, k := range enumUniverse {
			e.Exec(Call{Req: Req{Kind: "mutate", Table: tname(parentA, "t"), Key: k, Muts: []Mutation{{Kind: "set", Fam: "f", Q: []byte("q"), Ts: 1000, V: k}}}, Now: 1000})
		}
		count := enumBlock(tier)
		if jobs[j].rs0+count > enumRangeSets {
			count = enumRangeSets - jobs[j].rs0
		}
		c := runEnumBlock(e, tname(parentA, "t"), jobs[j].rs0, count, limits, jobs[j].en.name)
		closeEmu(e)
		cleanup()
		b, _ := json.Marshal(struct {
			Job  int       `json:"job"`
			Case *EnumCase `json:"case"`
		}{j, c})
		w.Write(b)
		w.WriteByte('\n')
	}
}

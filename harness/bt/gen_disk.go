package main

import (
	"encoding/json"
	"fmt"
	"io"
	"math/rand"
	"os"
	"path/filepath"
	"strings"

	"github.com/fullstorydev/emulators/bigtable/bttest"
)

// C08: the on-disk engine.  Programs run on a server backed by a directory; at every request
// boundary and at every instrumented crash point inside a request a point-in-time image of the
// directory is taken through the OS (what a kill -9 leaves) and a second server is started on the
// image; between program segments the server itself is stopped and restarted on the directory.

// parents whose instance or project id is the word the names use as a separator
const parentT1 = "projects/p/instances/tables"
const parentT2 = "projects/tables/instances/i"

var diskNames = []string{tname(parentA, "t1"), tname(parentA, "t2"), tname(parentB, "t1"), tname(parentA, "t10"), tname(parentT1, "t1"), tname(parentT2, "tables")}

func copyTree(src, dst string) error {
	return filepath.Walk(src, func(p string, info os.FileInfo, err error) error {
		if err != nil {
			return nil // a file that vanished while walking
		}
		rel, _ := filepath.Rel(src, p)
		target := filepath.Join(dst, rel)
		if info.IsDir() {
			return os.MkdirAll(target, 0o777)
		}
		in, err := os.Open(p)
		if err != nil {
			return nil
		}
		defer in.Close()
		out, err := os.Create(target)
		if err != nil {
			return err
		}
		defer out.Close()
		_, err = io.Copy(out, in)
		return err
	})
}

// probeImage starts a server on a copy of dir and asks it for every candidate table.
func probeImage(dir string) []Resp {
	cp, err := os.MkdirTemp(tmpRoot, "img")
	if err != nil {
		panic(err)
	}
	defer os.RemoveAll(cp)
	if err := copyTree(dir, cp); err != nil {
		panic(err)
	}
	var out []Resp
	func() {
		defer func() {
			if p := recover(); p != nil {
				out = []Resp{{Code: 99, Kind: "none", Panic: "starting a server on the image failed: " + fmt.Sprint(p)}}
			}
		}()
		e := NewEmu(bttest.LeveldbDiskStorage{Root: cp, ErrLog: func(error, string) {}})
		defer closeEmu(e)
		for _, n := range diskNames {
			out = append(out, e.ExecFast(Call{Req: Req{Kind: "get", Table: n}}), e.ExecFast(Call{Req: Req{Kind: "read", Table: n}}))
		}
	}()
	return out
}

type DiskObs struct {
	Resp   Resp     `json:"resp"`
	Points []DiskPt `json:"points,omitempty"`
	After  []Resp   `json:"after"`
}
type DiskPt struct {
	Point  string `json:"point"`
	Probes []Resp `json:"probes"`
}
type DiskSeg struct {
	Prog  []Call    `json:"prog"`
	Obs   []DiskObs `json:"obs"`
	Crash string    `json:"crash,omitempty"` // the server is killed at this point of the segment's last request
}

// SegPlan: a segment's requests and, optionally, the crash point of its last request at which the
// server is killed: the next segment's server starts on the image taken there.
type SegPlan struct {
	Prog  []Call
	Crash string
}

func plain(segs [][]Call) []SegPlan {
	var out []SegPlan
	for _, s := range segs {
		out = append(out, SegPlan{Prog: s})
	}
	return out
}

type DiskCase struct {
	Store string    `json:"store"`
	Tag   string    `json:"tag"`
	Segs  []DiskSeg `json:"segs"`
}

func cResps(rs []Resp) string {
	var xs []string
	for _, r := range rs {
		xs = append(xs, r.coq())
	}
	return cList(xs)
}

func (c *DiskCase) coq() string {
	var names, segs []string
	for _, n := range diskNames {
		names = append(names, cStr(n))
	}
	for _, s := range c.Segs {
		var ps, os_ []string
		for _, p := range s.Prog {
			ps = append(ps, p.coq())
		}
		for _, o := range s.Obs {
			var pts []string
			for _, p := range o.Points {
				pts = append(pts, "("+cStr(p.Point)+", "+cResps(p.Probes)+")")
			}
			os_ = append(os_, fmt.Sprintf("(%s, %s, %s)", o.Resp.coq(), cList(pts), cResps(o.After)))
		}
		crash := "None"
		if s.Crash != "" {
			crash = "(Some " + cStr(s.Crash) + ")"
		}
		segs = append(segs, "("+cList(ps)+",\n   "+cList(os_)+", "+crash+")")
	}
	return "(" + cList(names) + ", " + cList(segs) + ")"
}

const diskPrelude = `From Coq Require Import List NArith ZArith.
Import ListNotations.
From Emu.Common Require Import Bytes Str.
From Emu.BT Require Import Types Server Check Disk DiskCheck.
`

func runDiskCase(segs []SegPlan, tag string) *DiskCase {
	dir, err := os.MkdirTemp(tmpRoot, "disk")
	if err != nil {
		panic(err)
	}
	defer os.RemoveAll(dir)
	c := &DiskCase{Store: "leveldb-disk", Tag: tag}
	crashImg := ""
	for si, plan := range segs {
		prog := plan.Prog
		if si > 0 && crashImg != "" {
			// the previous server was killed inside its last request: start on the image taken there
			dir, crashImg = crashImg, ""
		} else if si > 0 {
			// restart: the next server runs on a point-in-time image of the directory (in one process a
			// handle leaked by DeleteTable would keep the original directory's lock)
			next, err := os.MkdirTemp(tmpRoot, "disk")
			if err != nil {
				panic(err)
			}
			defer os.RemoveAll(next)
			if err := copyTree(dir, next); err != nil {
				panic(err)
			}
			dir = next
		}
		var e *Emu
		startErr := ""
		func() {
			defer func() {
				if p := recover(); p != nil {
					startErr = fmt.Sprint(p)
				}
			}()
			e = NewEmu(bttest.LeveldbDiskStorage{Root: dir, ErrLog: func(error, string) {}})
		}()
		seg := DiskSeg{Prog: prog}
		if startErr != "" {
			// the server does not even start on the directory: every request of the segment is lost
			for range prog {
				seg.Obs = append(seg.Obs, DiskObs{Resp: Resp{Code: 99, Kind: "none", Panic: "the server does not start on the directory: " + startErr}})
			}
			c.Segs = append(c.Segs, seg)
			break
		}
		for ci, call := range prog {
			s := NewSched(e, [][]Call{{call}})
			var o DiskObs
			for step := 0; step < 10000; step++ {
				out := s.Step(0)
				if out.Kind == "at" {
					if strings.HasPrefix(out.Point, "disk.") {
						o.Points = append(o.Points, DiskPt{Point: out.Point, Probes: probeImage(dir)})
						if ci == len(prog)-1 && out.Point == plan.Crash && crashImg == "" {
							img, err := os.MkdirTemp(tmpRoot, "disk")
							if err != nil {
								panic(err)
							}
							defer os.RemoveAll(img)
							if err := copyTree(dir, img); err != nil {
								panic(err)
							}
							crashImg = img
							seg.Crash = plan.Crash
						}
					}
					continue
				}
				if out.Kind == "done" {
					o.Resp = *out.Resp
				} else {
					o.Resp = Resp{Code: 98, Kind: "none", Panic: "request " + out.Kind}
				}
				break
			}
			o.After = probeImage(dir)
			seg.Obs = append(seg.Obs, o)
		}
		closeEmu(e)
		c.Segs = append(c.Segs, seg)
	}
	return c
}

func (c *DiskCase) pseudo() Case {
	pc := Case{Store: c.Store, Tag: c.Tag}
	for _, s := range c.Segs {
		for i, p := range s.Prog {
			pc.Prog = append(pc.Prog, p)
			pc.Obs = append(pc.Obs, s.Obs[i].Resp)
		}
	}
	return pc
}

func genDiskProgram(rng *rand.Rand, nseg, length int) [][]Call {
	var segs [][]Call
	g := &progGen{rng: rng, focus: "C08", tbl: tname(parentA, "t1")}
	for s := 0; s < nseg; s++ {
		g.prog = nil
		if s == 0 {
			g.add(Req{Kind: "create", Parent: parentA, Tid: "t1", Fams: []FamDef{{Name: "cf", Rule: g.optRule()}, {Name: "cf2"}}})
		}
		for len(g.prog) < length {
			switch c := rng.Intn(20); {
			case c < 8:
				g.opWrite()
			case c < 10:
				g.opRmw()
			case c < 17:
				g.opAdmin()
			case c < 18:
				g.opGC()
			default:
				g.opCam()
			}
		}
		// drop sample requests (their answer is random) and the odd read
		var prog []Call
		for _, c := range g.prog {
			if c.Req.Kind != "sample" {
				prog = append(prog, c)
			}
		}
		segs = append(segs, prog)
	}
	return segs
}

func genC08(out, tier string, rng *rand.Rand) {
	sink := NewSink(out, diskPrelude, "dcase", "check_disk", 3)
	sink.oracle = "oracle_disk"
	n, nseg, length := 36, 3, 7
	if tier == "thorough" {
		n, nseg, length = 400, 4, 10
	}
	var programs [][]SegPlan
	tags := []string{}
	// directed scenarios first: the crash points of create / clear / schema change, delete + re-create
	t1 := tname(parentA, "t1")
	w := func(key string, v string) Call {
		return Call{Req: Req{Kind: "mutate", Table: t1, Key: []byte(key), Muts: []Mutation{{Kind: "set", Fam: "cf", Q: []byte("q"), Ts: 1000, V: []byte(v)}, {Kind: "set", Fam: "cf2", Q: []byte("q"), Ts: 1000, V: []byte(v)}}}, Now: 5000}
	}
	create := Call{Req: Req{Kind: "create", Parent: parentA, Tid: "t1", Fams: []FamDef{{Name: "cf", Rule: &GcRule{Kind: "maxversions", N: 2}}, {Name: "cf2"}}}, Now: 1000}
	programs = append(programs, plain([][]Call{{create, w("a", "1"), w("b", "2"), {Req: Req{Kind: "drop", Table: t1, All: true}, Now: 1}, w("c", "3")}, {w("d", "4"), {Req: Req{Kind: "drop", Table: t1, HasPfx: true, Prefix: []byte("c")}, Now: 1}}, {w("e", "5")}}))
	tags = append(tags, "clear")
	programs = append(programs, plain([][]Call{{create, w("a", "1"), {Req: Req{Kind: "modify", Table: t1, Mods: []FMod{{Kind: "create", ID: "x", Rule: &GcRule{Kind: "maxage", Secs: 5}}, {Kind: "update", ID: "cf"}}}, Now: 1}, w("b", "2")}, {{Req: Req{Kind: "get", Table: t1}, Now: 1}, w("c", "3")}}))
	tags = append(tags, "schema")
	programs = append(programs, plain([][]Call{{create, w("a", "1"), {Req: Req{Kind: "modify", Table: t1, Mods: []FMod{{Kind: "drop", ID: "cf2"}}}, Now: 1}, w("b", "2")}, {w("c", "3")}}))
	tags = append(tags, "drop-family")
	programs = append(programs, plain([][]Call{{create, w("a", "1"), {Req: Req{Kind: "delete", Table: t1}, Now: 1}}, {{Req: Req{Kind: "get", Table: t1}, Now: 1}}}))
	tags = append(tags, "delete-table")
	programs = append(programs, plain([][]Call{{create, w("a", "1"), {Req: Req{Kind: "delete", Table: t1}, Now: 1}, create, w("b", "2")}, {w("c", "3")}}))
	tags = append(tags, "delete-recreate")
	// tables whose ids are prefixes of one another: deleting / clearing / re-creating one leaves the other
	t10 := tname(parentA, "t10")
	create10 := Call{Req: Req{Kind: "create", Parent: parentA, Tid: "t10", Fams: []FamDef{{Name: "cf"}}}, Now: 1000}
	w10 := func(key, v string) Call {
		return Call{Req: Req{Kind: "mutate", Table: t10, Key: []byte(key), Muts: []Mutation{{Kind: "set", Fam: "cf", Q: []byte("q"), Ts: 1000, V: []byte(v)}}}, Now: 5000}
	}
	programs = append(programs, plain([][]Call{{create, create10, w("a", "1"), w10("x", "10"), {Req: Req{Kind: "delete", Table: t1}, Now: 1}}, {w10("y", "11"), create, w("b", "2"), {Req: Req{Kind: "drop", Table: t1, All: true}, Now: 1}}, {w10("z", "12"), {Req: Req{Kind: "delete", Table: t10}, Now: 1}}, {w("c", "3")}}))
	tags = append(tags, "prefix-related-ids")
	// instances and projects called "tables" (ids are free-form): their tables are tables like any other,
	// across restarts
	{
		mk := func(parent, tid string) []Call {
			n := tname(parent, tid)
			return []Call{{Req: Req{Kind: "create", Parent: parent, Tid: tid, Fams: []FamDef{{Name: "cf"}}}, Now: 1000},
				{Req: Req{Kind: "mutate", Table: n, Key: []byte("k"), Muts: []Mutation{{Kind: "set", Fam: "cf", Q: []byte("q"), Ts: 1000, V: []byte(tid)}}}, Now: 5000}}
		}
		seg1 := append(append(append([]Call{}, mk(parentT1, "t1")...), mk(parentT2, "tables")...), create, w("a", "1"))
		programs = append(programs, plain([][]Call{seg1, {w("b", "2"), {Req: Req{Kind: "read", Table: tname(parentT1, "t1")}, Now: 1}}, {{Req: Req{Kind: "read", Table: tname(parentT2, "tables")}, Now: 1}, {Req: Req{Kind: "delete", Table: t1}, Now: 1}}, {{Req: Req{Kind: "read", Table: t1}, Now: 1}}}))
		tags = append(tags, "parents-named-tables")
	}
	// keys, qualifiers and values on both sides of the sizes at which length prefixes grow, across restarts
	{
		lf := longFieldProgram()
		programs = append(programs, plain([][]Call{lf[:4], lf[4:11], lf[11 : len(lf)-1]})) // without the final SampleRowKeys (its coins are not recorded by the disk runner)
		tags = append(tags, "long-fields")
	}
	// kill INSIDE a request, restart on that image and carry on (twice in a row: the second kill hits a
	// server that itself started on a crash image)
	del := Call{Req: Req{Kind: "delete", Table: t1}, Now: 1}
	rd := Call{Req: Req{Kind: "read", Table: t1}, Now: 1}
	dropAll := Call{Req: Req{Kind: "drop", Table: t1, All: true}, Now: 1}
	dropFam := Call{Req: Req{Kind: "modify", Table: t1, Mods: []FMod{{Kind: "drop", ID: "cf2"}}}, Now: 1}
	for _, p2 := range []string{"disk.meta.tmp", "disk.meta.renamed", "disk.db.removed", ""} {
		programs = append(programs, []SegPlan{{Prog: []Call{create, w("a", "1"), del}, Crash: "disk.delete.undefined"}, {Prog: []Call{create}, Crash: p2}, {Prog: []Call{rd, w("b", "2")}}})
		tags = append(tags, "kill-in-delete-then-create")
	}
	for _, p1 := range []string{"disk.meta.tmp", "disk.meta.renamed", "disk.db.removed"} {
		programs = append(programs, []SegPlan{{Prog: []Call{create}, Crash: p1}, {Prog: []Call{create, w("a", "1")}}, {Prog: []Call{rd}}})
		tags = append(tags, "kill-in-create")
	}
	programs = append(programs, []SegPlan{{Prog: []Call{create, w("a", "1"), dropAll}}, {Prog: []Call{rd, w("b", "2"), dropAll}}, {Prog: []Call{rd, w("c", "3")}}})
	tags = append(tags, "clear-restart")
	for _, p1 := range []string{"disk.meta.tmp", "disk.meta.renamed"} {
		programs = append(programs, []SegPlan{{Prog: []Call{create, w("a", "1"), dropFam}, Crash: p1}, {Prog: []Call{rd, w("b", "2")}}})
		tags = append(tags, "kill-in-drop-family")
	}
	// a request killed while it wrote a LONG definition leaves a long temporary file behind; the shorter
	// definitions acknowledged after the restart must be what the next start finds
	{
		var long []FMod
		var longFams []FamDef
		for i := 0; i < 6; i++ {
			rule := &GcRule{Kind: "union", Rules: []GcRule{{Kind: "maxage", Secs: int64(3600 * (i + 1))}, {Kind: "maxversions", N: int64(i + 2)}}}
			long = append(long, FMod{Kind: "create", ID: fmt.Sprintf("family_with_a_long_name_%d", i), Rule: rule})
			longFams = append(longFams, FamDef{Name: fmt.Sprintf("family_with_a_long_name_%d", i), Rule: rule})
		}
		grow := Call{Req: Req{Kind: "modify", Table: t1, Mods: long}, Now: 1}
		get := Call{Req: Req{Kind: "get", Table: t1}, Now: 1}
		createLong := Call{Req: Req{Kind: "create", Parent: parentA, Tid: "t1", Fams: append(longFams, FamDef{Name: "cf"}, FamDef{Name: "cf2"})}, Now: 1000}
		for _, p1 := range []string{"disk.meta.tmp", "disk.meta.renamed"} {
			programs = append(programs, []SegPlan{{Prog: []Call{create, w("a", "1"), grow}, Crash: p1}, {Prog: []Call{get, rd, dropFam, w("b", "2")}}, {Prog: []Call{get, rd, w("c", "3")}}, {Prog: []Call{get, rd}}})
			tags = append(tags, "kill-in-long-definition")
			programs = append(programs, []SegPlan{{Prog: []Call{createLong}, Crash: p1}, {Prog: []Call{get, create, w("a", "1")}}, {Prog: []Call{get, rd, dropFam}}, {Prog: []Call{get, rd}}})
			tags = append(tags, "kill-in-long-create")
		}
	}
	for i := 0; i < n; i++ {
		segs := plain(genDiskProgram(rng, nseg, length))
		if i%2 == 1 {
			// every segment but the last ends with a request that has crash points and is killed at one
			for si := 0; si < len(segs)-1; si++ {
				var c Call
				var pts []string
				switch rng.Intn(5) {
				case 0:
					c, pts = del, []string{"disk.delete.undefined"}
				case 1:
					c, pts = create, []string{"disk.meta.tmp", "disk.meta.renamed", "disk.db.removed"}
				case 2:
					c, pts = dropAll, []string{""} // Clear is one atomic batch: no crash point inside
				case 3:
					c, pts = dropFam, []string{"disk.meta.tmp", "disk.meta.renamed"}
				default:
					c = Call{Req: Req{Kind: "modify", Table: t1, Mods: []FMod{{Kind: "create", ID: fmt.Sprintf("n%d", si)}}}, Now: 1}
					pts = []string{"disk.meta.tmp", "disk.meta.renamed"}
				}
				segs[si].Prog = append(segs[si].Prog, c)
				segs[si].Crash = pts[rng.Intn(len(pts))]
			}
			tags = append(tags, "random-kill")
		} else {
			tags = append(tags, "random")
		}
		programs = append(programs, segs)
	}
	results := make([]*DiskCase, len(programs))
	parallelN(16, len(programs), func(i int) { results[i] = runDiskCase(programs[i], tags[i]) })
	for _, c := range results {
		js, _ := json.Marshal(c)
		sink.AddPre(c.pseudo(), c.coq(), js, len(c.Segs) > 1)
	}
	sink.Close(fmt.Sprintf("programs of admin and data requests (create / delete / re-create tables, schema changes incl. dropped families, DropRowRange all and by prefix, row writes, read-modify-writes, forced GC) in %d segments of about %d requests on the on-disk engine; after EVERY request and at every instrumented crash point inside SetTableMeta (temp written / renamed), table create (leftover directory cleared / directory removed), table delete (definition removed, directory still there) a point-in-time copy of the directory is taken and a second server is started on it and asked for every candidate table (GetTable + full ReadRows); between segments the server is stopped and restarted on the directory, or (tags kill-*, random-kill) KILLED at a crash point inside the segment's last request: the next segment's server starts on the image taken at that point and the program carries on, including a second kill on a server that itself started on a crash image (repeated crash-restart cycles); compared with the model's restart of the corresponding image and judged by the durability / crash-atomicity oracle; plus directed scenarios for each crash point; non-trivial = at least one restart", nseg, length), false)
}

package main

import (
	"bytes"
	"encoding/json"
	"fmt"
	"math/rand"
	"strings"
	"sync"
	"sync/atomic"
	"time"
)

// Scheduled (interleaved) executions: C06 (single-row writes), C18 (scans vs writers),
// C16 (GC hand-over vs writers).

type ConcCase struct {
	Store   string    `json:"store"`
	Tag     string    `json:"tag"`
	Setup   []Call    `json:"setup"`
	Threads [][]Call  `json:"threads"`
	Sched   []int     `json:"sched"`
	Obs     []Outcome `json:"obs"`
	Final   []Call    `json:"final"`
	FinalR  []Resp    `json:"final_resp"`
	// setup written compactly: bulk rows (key, family, nq, nv, base, value) instead of SetCell lists
	Bulk []BulkRow `json:"bulk,omitempty"`
}

type BulkRow struct {
	Key  []byte `json:"key"`
	Fam  string `json:"fam"`
	NQ   int    `json:"nq"`
	NV   int    `json:"nv"`
	Base int64  `json:"base"`
	V    []byte `json:"v"`
}

func (b BulkRow) muts() []Mutation {
	var ms []Mutation
	for q := 0; q < b.NQ; q++ {
		for j := 0; j < b.NV; j++ {
			ms = append(ms, Mutation{Kind: "set", Fam: b.Fam, Q: []byte(fmt.Sprintf("q%03d", q)), Ts: b.Base + 1000*int64(j), V: b.V})
		}
	}
	return ms
}
func (b BulkRow) row() Row {
	f := Fam{Name: b.Fam}
	for q := 0; q < b.NQ; q++ {
		c := Col{Q: []byte(fmt.Sprintf("q%03d", q))}
		for j := b.NV - 1; j >= 0; j-- {
			c.Cells = append(c.Cells, Cell{Ts: b.Base + 1000*int64(j), V: b.V})
		}
		f.Cols = append(f.Cols, c)
	}
	return Row{Key: b.Key, Fams: []Fam{f}}
}
func (b BulkRow) coqMuts() string {
	return fmt.Sprintf("(bulk_muts %s %d %d %s %s)", cStr(b.Fam), b.NQ, b.NV, cZ(b.Base), cBytes(b.V))
}
func (b BulkRow) coqFams() string {
	return fmt.Sprintf("(bulk_fams %s %d %d %s %s)", cStr(b.Fam), b.NQ, b.NV, cZ(b.Base), cBytes(b.V))
}

func rowsEqual(a, b Row) bool {
	ja, _ := json.Marshal(a.canon())
	jb, _ := json.Marshal(b.canon())
	return string(ja) == string(jb)
}

// respCoq prints a response, using the compact form for rows that equal a bulk row
func (c *ConcCase) respCoq(r Resp) string {
	if r.Kind != "rows" || len(c.Bulk) == 0 {
		return r.coq()
	}
	var xs []string
	for _, row := range r.Rows {
		done := false
		for _, b := range c.Bulk {
			if string(b.Key) == string(row.Key) && rowsEqual(row, b.row()) {
				xs = append(xs, fmt.Sprintf("(mkRow %s %s)", cBytes(row.Key), b.coqFams()))
				done = true
				break
			}
		}
		if !done {
			xs = append(xs, row.canon().coq())
		}
	}
	return fmt.Sprintf("(mkBResp %s (YRows %s))", cN(r.Code), cList(xs))
}

func (c *ConcCase) coq() string {
	var setup, threads, sched, obs, final []string
	bi := 0
	for _, s := range c.Setup {
		if s.Req.Kind == "mutate" && bi < len(c.Bulk) && string(s.Req.Key) == string(c.Bulk[bi].Key) && len(s.Req.Muts) == c.Bulk[bi].NQ*c.Bulk[bi].NV {
			setup = append(setup, fmt.Sprintf("(mkCall (BMutateRow %s %s %s) %s [])", cStr(s.Req.Table), cBytes(s.Req.Key), c.Bulk[bi].coqMuts(), cZ(s.Now)))
			bi++
			continue
		}
		setup = append(setup, s.coq())
	}
	for _, t := range c.Threads {
		var cs []string
		for _, x := range t {
			cs = append(cs, x.coq())
		}
		threads = append(threads, cList(cs))
	}
	for _, i := range c.Sched {
		sched = append(sched, fmt.Sprintf("%d%%nat", i))
	}
	for _, o := range c.Obs {
		if o.Kind == "done" {
			obs = append(obs, "(ODone "+c.respCoq(*o.Resp)+")")
		} else {
			obs = append(obs, o.coq())
		}
	}
	for i, f := range c.Final {
		final = append(final, "("+f.coq()+", "+c.respCoq(c.FinalR[i])+")")
	}
	return fmt.Sprintf("(mkCCase %s\n  %s\n  %s\n  %s\n  %s)", cList(setup), cList(threads), cList(sched), cList(obs), cList(final))
}

const concPrelude = `From Coq Require Import List NArith ZArith.
Import ListNotations.
From Emu.Common Require Import Bytes Str.
From Emu.BT Require Import Types Server Check Conc Bulk ConcCheck.
`

// runConc executes one scheduled case on an engine.  The schedule is followed by a recorded
// round-robin drain so that every thread finishes.
// wedgedCases counts scheduled cases whose threads never finished (the implementation deadlocked or
// hung): each costs seconds of timeouts, so after a few the remaining cases of the run are not
// executed (the ones recorded already fail the comparison with the model).
var wedgedCases atomic.Int32

const maxWedged = 8

func runConc(en Engine, setup []Call, threads [][]Call, sched []int, final []Call, bulk []BulkRow, tag string) *ConcCase {
	if wedgedCases.Load() >= maxWedged {
		return nil
	}
	st, cleanup := en.mk()
	defer cleanup()
	e := NewEmu(st)
	defer closeEmu(e)
	c := &ConcCase{Store: en.name, Tag: tag, Setup: setup, Threads: threads, Final: final, Bulk: bulk}
	for _, s := range setup {
		if r := e.Exec(s); r.Code != 0 {
			panic(fmt.Sprintf("setup request failed: %+v -> %+v", s.Req.Kind, r))
		}
	}
	s := NewSched(e, threads)
	step := func(i int) {
		s.StepPref(i, func(j int, o Outcome) {
			c.Sched = append(c.Sched, j)
			c.Obs = append(c.Obs, o)
		})
	}
	for _, i := range sched {
		step(i)
	}
	busy := true
	deadline := time.Now().Add(30 * time.Second)
	for round := 0; round < 400 && busy && time.Now().Before(deadline); round++ {
		busy = false
		for i, t := range s.threads {
			if !t.dead && (t.running || t.parked != "" || len(t.todo) > 0) {
				busy = true
				step(i)
			}
		}
	}
	for _, t := range s.threads {
		if t.dead {
			busy = true
		}
	}
	if busy {
		// some thread never finished: the table lock may be held for ever, so the final probes
		// (which would each wait for the watchdog) are not run; the recorded steps already differ
		// from the model, where every schedule drains
		wedgedCases.Add(1)
		c.Final = nil
		return c
	}
	for _, f := range final {
		c.FinalR = append(c.FinalR, e.Exec(f))
	}
	return c
}

func (c *ConcCase) pseudo() Case {
	pc := Case{Store: c.Store, Tag: c.Tag}
	for _, t := range c.Threads {
		for _, x := range t {
			pc.Prog = append(pc.Prog, x)
		}
	}
	for _, o := range c.Obs {
		if o.Kind == "done" {
			pc.Obs = append(pc.Obs, *o.Resp)
		}
	}
	for len(pc.Obs) < len(pc.Prog) {
		pc.Obs = append(pc.Obs, Resp{Code: 97, Kind: "none"})
	}
	pc.Obs = pc.Obs[:len(pc.Prog)]
	return pc
}

const concTable = parentA + "/tables/t1"

func smallSetup() []Call {
	return []Call{
		{Req: Req{Kind: "create", Parent: parentA, Tid: "t1", Fams: []FamDef{{Name: "cf"}, {Name: "cf2"}}}, Now: 1000000},
		{Req: Req{Kind: "mutate", Table: concTable, Key: []byte("r1"), Muts: []Mutation{{Kind: "set", Fam: "cf", Q: []byte("n"), Ts: 1000, V: be64(10)}, {Kind: "set", Fam: "cf", Q: []byte("s"), Ts: 1000, V: []byte("x")}}}, Now: 1000000},
		{Req: Req{Kind: "mutate", Table: concTable, Key: []byte("r2"), Muts: []Mutation{{Kind: "set", Fam: "cf2", Q: []byte("n"), Ts: 2000, V: be64(1)}}}, Now: 1000000},
	}
}

// the request kinds of C06, on a given row
func c06Request(kind int, key []byte, variant int) Call {
	now := int64(5000000 + 1000*variant)
	switch kind {
	case 0:
		return Call{Req: Req{Kind: "mutate", Table: concTable, Key: key, Muts: []Mutation{{Kind: "set", Fam: "cf", Q: []byte("s"), Ts: -1, V: []byte(fmt.Sprint("m", variant))}, {Kind: "set", Fam: "cf2", Q: []byte("t"), Ts: 3000, V: []byte(fmt.Sprint("m", variant))}}}, Now: now}
	case 1:
		return Call{Req: Req{Kind: "mutaterows", Table: concTable, Entries: []Entry{{Key: key, Muts: []Mutation{{Kind: "set", Fam: "cf", Q: []byte("s"), Ts: 4000, V: []byte(fmt.Sprint("e", variant))}}}, {Key: []byte("r3"), Muts: []Mutation{{Kind: "set", Fam: "cf", Q: []byte("s"), Ts: 4000, V: []byte(fmt.Sprint("e", variant))}, {Kind: "set", Fam: "nope", Q: nil, Ts: 0}}}}}, Now: now}
	case 2:
		// check-and-mutate on a predicate state only one of two can see: "s" equals x -> set it to something else
		return Call{Req: Req{Kind: "cam", Table: concTable, Key: key,
			Pred: &Filter{Kind: "chain", Subs: []*Filter{{Kind: "qualregex", Rx: &Regex{Re: &Re{Kind: "lit", B: 's'}}}, {Kind: "valregex", Rx: &Regex{Re: &Re{Kind: "lit", B: 'x'}}}}},
			TM:   []Mutation{{Kind: "set", Fam: "cf", Q: []byte("s"), Ts: 1000, V: []byte(fmt.Sprint("won", variant))}},
			FM:   []Mutation{{Kind: "set", Fam: "cf2", Q: []byte("lost"), Ts: 1000, V: []byte(fmt.Sprint("lost", variant))}}}, Now: now}
	case 3:
		return Call{Req: Req{Kind: "rmw", Table: concTable, Key: key, Rules: []Rule{{Kind: "incr", Fam: "cf", Q: []byte("n"), Amt: 1}, {Kind: "append", Fam: "cf", Q: []byte("s"), V: []byte(fmt.Sprint("+", variant))}}}, Now: now}
	}
	return Call{Req: Req{Kind: "read", Table: concTable, Keys: [][]byte{key, []byte("r3")}}, Now: now}
}

func c06Steps(kind int) int {
	switch kind {
	case 1:
		return 4
	case 4:
		return 2
	}
	return 3
}

// all interleavings of a zeros and b ones
func interleavings(a, b int) [][]int {
	if a == 0 && b == 0 {
		return [][]int{{}}
	}
	var out [][]int
	if a > 0 {
		for _, r := range interleavings(a-1, b) {
			out = append(out, append([]int{0}, r...))
		}
	}
	if b > 0 {
		for _, r := range interleavings(a, b-1) {
			out = append(out, append([]int{1}, r...))
		}
	}
	return out
}

type concJob struct {
	en      Engine
	setup   []Call
	threads [][]Call
	sched   []int
	final   []Call
	bulk    []BulkRow
	tag     string
}

func runConcJobs(sink *Sink, jobs []concJob) {
	results := make([]*ConcCase, len(jobs))
	parallelN(16, len(jobs), func(i int) {
		j := jobs[i]
		results[i] = runConc(j.en, j.setup, j.threads, j.sched, j.final, j.bulk, j.tag)
	})
	for _, c := range results {
		if c == nil {
			sink.stats.Skipped++
			continue
		}
		js, _ := json.Marshal(c)
		nt := false
		for _, o := range c.Obs {
			if o.Kind == "blocked" {
				nt = true
			}
		}
		sink.AddPre(c.pseudo(), c.coq(), js, nt || strings.HasPrefix(c.Tag, "atomic"))
	}
}

func genC06(out, tier string, rng *rand.Rand) {
	sink := NewSink(out, concPrelude, "ccase", "check_conc", 60)
	final := []Call{{Req: Req{Kind: "read", Table: concTable}, Now: 9000000}}
	var jobs []concJob
	for _, en := range engines() {
		for ka := 0; ka < 5; ka++ {
			for kb := 0; kb < 5; kb++ {
				for same := 0; same < 2; same++ {
					keyB := []byte("r1")
					if same == 0 {
						keyB = []byte("r2")
					}
					threads := [][]Call{{c06Request(ka, []byte("r1"), 1)}, {c06Request(kb, keyB, 2)}}
					for _, sch := range interleavings(c06Steps(ka), c06Steps(kb)) {
						jobs = append(jobs, concJob{en, smallSetup(), threads, sch, final, nil, fmt.Sprintf("pair-%d-%d", ka, kb)})
					}
				}
			}
		}
	}
	if tier == "thorough" {
		// sampled three-thread schedules
		for n := 0; n < 3000; n++ {
			en := engines()[rng.Intn(3)]
			var threads [][]Call
			total := 0
			for t := 0; t < 3; t++ {
				k := rng.Intn(5)
				threads = append(threads, []Call{c06Request(k, []byte([]string{"r1", "r1", "r2"}[rng.Intn(3)]), t+1), c06Request(rng.Intn(5), []byte("r1"), t+4)})
				total += 8
			}
			var sch []int
			for i := 0; i < total; i++ {
				sch = append(sch, rng.Intn(3))
			}
			jobs = append(jobs, concJob{en, smallSetup(), threads, sch, final, nil, "triple"})
		}
	}
	runConcJobs(sink, jobs)
	// failure atomicity: mutation lists whose k-th element is invalid, for each write RPC
	var tasks []Task
	for _, en := range engines() {
		for length := 1; length <= 5; length++ {
			for k := 0; k < length; k++ {
				for kr := 0; kr < 12; kr++ {
					// rot: which valid mutation leads the list (a SetCell, a DeleteFromRow or a DeleteFromFamily)
					kind, rot := kr%4, kr/4
					if rot > 0 && (length == 1 || kind == 3) {
						continue
					}
					var ms []Mutation
					for i := 0; i < length; i++ {
						if i == k {
							ms = append(ms, []Mutation{{Kind: "set", Fam: "nope", Q: []byte("q"), Ts: 1000, V: []byte("bad")}, {Kind: "set", Fam: "cf", Q: []byte("q"), Ts: 1001, V: []byte("bad")},
								{Kind: "delcol", Fam: "cf", Q: []byte("s"), HasTR: true, S: 3000, E: 2000}, {Kind: "unset"}}[(k+length+kind)%4])
						} else {
							ms = append(ms, []Mutation{{Kind: "set", Fam: "cf", Q: []byte(fmt.Sprint("q", i)), Ts: 2000, V: []byte("ok")}, {Kind: "delrow"}, {Kind: "delfam", Fam: "cf"}}[(i+rot)%3])
						}
					}
					prog := smallSetup()
					switch kind {
					case 0:
						prog = append(prog, Call{Req: Req{Kind: "mutate", Table: concTable, Key: []byte("r1"), Muts: ms}, Now: 7000000})
					case 1:
						prog = append(prog, Call{Req: Req{Kind: "mutaterows", Table: concTable, Entries: []Entry{{Key: []byte("r2"), Muts: []Mutation{{Kind: "set", Fam: "cf", Q: []byte("fine"), Ts: 1000, V: []byte("1")}}}, {Key: []byte("r1"), Muts: ms}}}, Now: 7000000})
						// several entries for the SAME row: a failed entry must leave no trace in a later successful one
						ok1 := []Mutation{{Kind: "set", Fam: "cf2", Q: []byte("after"), Ts: 1000, V: []byte("2")}}
						ok0 := []Mutation{{Kind: "set", Fam: "cf2", Q: []byte("before"), Ts: 1000, V: []byte("0")}}
						p2 := append(smallSetup(), Call{Req: Req{Kind: "mutaterows", Table: concTable, Entries: []Entry{{Key: []byte("r1"), Muts: ok0}, {Key: []byte("r1"), Muts: ms}, {Key: []byte("r1"), Muts: ok1}, {Key: []byte("r2"), Muts: ms}, {Key: []byte("r2"), Muts: ok1}}}, Now: 7000000},
							Call{Req: Req{Kind: "read", Table: concTable}, Now: 8000000})
						tasks = append(tasks, Task{en, "atomic", p2})
					case 2:
						prog = append(prog, Call{Req: Req{Kind: "cam", Table: concTable, Key: []byte("r1"), TM: ms, FM: []Mutation{{Kind: "delrow"}}}, Now: 7000000})
					default:
						rules := []Rule{{Kind: "incr", Fam: "cf", Q: []byte("n"), Amt: 5}}
						if k%2 == 0 {
							rules = append(rules, Rule{Kind: "incr", Fam: "cf", Q: []byte("s"), Amt: 1}) // not 8 bytes
						} else {
							rules = append(rules, Rule{Kind: "append", Fam: "nope", Q: []byte("s"), V: []byte("z")})
						}
						prog = append(prog, Call{Req: Req{Kind: "rmw", Table: concTable, Key: []byte("r1"), Rules: rules}, Now: 7000000})
					}
					prog = append(prog, Call{Req: Req{Kind: "read", Table: concTable}, Now: 8000000})
					tasks = append(tasks, Task{en, "atomic", prog})
				}
			}
		}
	}
	// a write takes effect as its mutation list and nothing else: CheckAndMutateRow whose predicate
	// REWRITES cells while testing them (strip_value, apply_label, interleave duplicates), with every
	// cell passing, with empty and non-empty branches
	for _, en := range engines() {
		qs := &Filter{Kind: "qualregex", Rx: &Regex{Re: &Re{Kind: "lit", B: 's'}}}
		preds := []*Filter{
			{Kind: "strip"},
			{Kind: "chain", Subs: []*Filter{qs, {Kind: "strip"}}},
			{Kind: "label", Label: "seen"},
			{Kind: "interleave", Subs: []*Filter{{Kind: "pass", Flag: true}, {Kind: "strip"}}},
			{Kind: "condition", P: &Filter{Kind: "strip"}, T: &Filter{Kind: "label", Label: "t"}},
		}
		for _, p := range preds {
			for _, tm := range [][]Mutation{nil, {{Kind: "set", Fam: "cf2", Q: []byte("won"), Ts: 1000, V: []byte("1")}}} {
				prog := append(smallSetup(),
					Call{Req: Req{Kind: "cam", Table: concTable, Key: []byte("r1"), Pred: p, TM: tm, FM: []Mutation{{Kind: "set", Fam: "cf2", Q: []byte("lost"), Ts: 1000, V: []byte("0")}}}, Now: 7000000},
					Call{Req: Req{Kind: "read", Table: concTable}, Now: 8000000},
					Call{Req: Req{Kind: "cam", Table: concTable, Key: []byte("r1"), Pred: &Filter{Kind: "valregex", Rx: &Regex{Re: &Re{Kind: "lit", B: 'x'}}}, TM: []Mutation{{Kind: "set", Fam: "cf2", Q: []byte("still-x"), Ts: 1000, V: []byte("1")}}}, Now: 7000000},
					Call{Req: Req{Kind: "read", Table: concTable}, Now: 8000000})
				tasks = append(tasks, Task{en, "atomic", prog})
			}
		}
	}
	// sequential cases go through the sequential checker: separate shard stream
	type res struct {
		c    Case
		text string
		js   []byte
	}
	rs := make([]res, len(tasks))
	parallelN(16, len(tasks), func(i int) {
		o := runProg(tasks[i].Engine, tasks[i].Prog)
		c := Case{Store: tasks[i].Engine.name, Tag: "atomic", Prog: tasks[i].Prog, Obs: o}
		js, _ := json.Marshal(c)
		rs[i] = res{c, c.coq(), js}
	})
	for _, r := range rs {
		sink.AddPreV("seq", "check_all", "(list call * list bresp)", r.c, r.text, r.js, true)
	}
	sink.Close("every interleaving (at the yield points before the table lock and between row fetch and write-back) of two requests drawn from {MutateRow, MutateRows, CheckAndMutateRow, ReadModifyWriteRow, ReadRows} on the same and on different rows, each schedule followed by a recorded round-robin drain, compared step by step (parked / blocked / returned + response) with the interleaving model, then a full read; plus (tag atomic) every position k of an invalid mutation in lists of length 1..5 (led by a SetCell, a DeleteFromRow or a DeleteFromFamily) for each write RPC; 3 engines; thorough adds sampled three-thread schedules; distinct = distinct canonical text; non-trivial = some step was blocked on the table lock, or a failure-atomicity case", tier == "quick" || tier == "thorough")
}

// ---------------- C18: multi-message scans against writers (leveldb engines) ----------------

func leveldbEngines() []Engine { return engines()[1:] }

func scanKey(i int) []byte { return []byte(fmt.Sprintf("k%02d", i)) }

func c18Setup(nrows int) ([]Call, []BulkRow) {
	setup := []Call{{Req: Req{Kind: "create", Parent: parentA, Tid: "t1", Fams: []FamDef{{Name: "cf"}, {Name: "cf2"}}}, Now: 1000000}}
	var bulk []BulkRow
	for i := 0; i < nrows; i++ {
		b := BulkRow{Key: scanKey(i), Fam: "cf", NQ: 3, NV: 350, Base: 1000000, V: []byte{byte('A' + i)}}
		bulk = append(bulk, b)
		setup = append(setup, Call{Req: Req{Kind: "mutate", Table: concTable, Key: b.Key, Muts: b.muts()}, Now: 1000000})
	}
	return setup, bulk
}

func c18Writer(kind int, key []byte, variant int) Call {
	now := int64(2000000000 + 1000*variant)
	switch kind {
	case 0:
		return Call{Req: Req{Kind: "mutate", Table: concTable, Key: key, Muts: []Mutation{{Kind: "set", Fam: "cf2", Q: []byte("w"), Ts: -1, V: []byte(fmt.Sprint("w", variant))}, {Kind: "delcol", Fam: "cf", Q: []byte("q001")}}}, Now: now}
	case 1:
		return Call{Req: Req{Kind: "mutate", Table: concTable, Key: key, Muts: []Mutation{{Kind: "delrow"}}}, Now: now}
	case 2:
		return Call{Req: Req{Kind: "rmw", Table: concTable, Key: key, Rules: []Rule{{Kind: "append", Fam: "cf", Q: []byte("q000"), V: []byte("+")}, {Kind: "incr", Fam: "cf2", Q: []byte("n"), Amt: int64(variant)}}}, Now: now}
	case 4:
		// every row goes while the scan is parked with the lock released
		return Call{Req: Req{Kind: "drop", Table: concTable, All: true}, Now: now}
	case 5:
		return Call{Req: Req{Kind: "drop", Table: concTable, HasPfx: true, Prefix: key}, Now: now}
	}
	return Call{Req: Req{Kind: "mutaterows", Table: concTable, Entries: []Entry{{Key: key, Muts: []Mutation{{Kind: "set", Fam: "cf2", Q: []byte("e"), Ts: 5000, V: []byte("e")}}}, {Key: []byte("k99new"), Muts: []Mutation{{Kind: "set", Fam: "cf", Q: []byte("new"), Ts: 5000, V: []byte("n")}}}}}, Now: now}
}

func genC18(out, tier string, rng *rand.Rand) {
	sink := NewSink(out, concPrelude, "ccase", "check_conc", 6)
	const nrows = 5
	setup, bulk := c18Setup(nrows)
	final := []Call{{Req: Req{Kind: "read", Table: concTable}, Now: 9000000}}
	scans := []Req{
		{Kind: "read", Table: concTable},
		{Kind: "read", Table: concTable, Ranges: []RowRange{{S: Bound{Kind: "closed", K: scanKey(0)}, E: Bound{Kind: "open", K: scanKey(2)}}, {S: Bound{Kind: "open", K: scanKey(2)}, E: Bound{Kind: "unset"}}}},
		{Kind: "read", Table: concTable, Keys: [][]byte{scanKey(1), scanKey(4)}, Ranges: []RowRange{{S: Bound{Kind: "closed", K: scanKey(2)}, E: Bound{Kind: "closed", K: scanKey(3)}}}, Limit: 4},
	}
	var jobs []concJob
	add := func(en Engine, scan Req, sched []int, writers [][]Call, tag string) {
		threads := append([][]Call{{{Req: scan, Now: 3000000}}}, writers...)
		jobs = append(jobs, concJob{en, setup, threads, sched, final, bulk, tag})
	}
	for _, en := range leveldbEngines() {
		for si, scan := range scans {
			if tier == "quick" && si == 2 && en.name == "leveldb-disk" {
				continue
			}
			// the scan parks at r.lock (1 step) and then at one r.send per row
			for h := 1; h <= nrows; h++ {
				for kind := 0; kind < 6; kind++ {
					for pos := -1; pos <= 1; pos++ {
						target := h + pos // scan position h: rows < h already sent
						if target < 0 || target >= nrows {
							continue
						}
						if tier == "quick" && (h+kind+pos+si)%2 == 1 {
							continue
						}
						var sched []int
						for i := 0; i < 1+h; i++ {
							sched = append(sched, 0)
						}
						w := c18Writer(kind, scanKey(target), h*10+kind)
						// the writer runs completely while the scan is parked with the lock released
						sched = append(sched, 1, 1, 1, 1)
						add(en, scan, sched, [][]Call{{w}}, fmt.Sprintf("scan%d-h%d-w%d-p%d", si, h, kind, pos))
						if kind == 0 || kind == 2 {
							// after the scan has finished: a second write to the row written during the hand-over,
							// then a read -- the first write must still be there (no stale copy of the row may
							// have survived the scan)
							jobs[len(jobs)-1].final = []Call{c18Writer(3-kind, scanKey(target), h*10+kind+500), final[0], c18Writer(kind, scanKey(target), h*10+kind+600), final[0]}
							jobs[len(jobs)-1].tag += "+rewrite"
						}
					}
				}
			}
			// a writer parked inside its section when the scan wants the lock back; two writers
			add(en, scan, []int{0, 0, 1, 1, 0, 0, 1, 0}, [][]Call{{c18Writer(0, scanKey(3), 1), c18Writer(1, scanKey(1), 2)}}, "writer-holds")
			add(en, scan, []int{1, 1, 0, 0, 0, 1, 0, 2, 2, 2, 0, 2, 0}, [][]Call{{c18Writer(2, scanKey(2), 3)}, {c18Writer(3, scanKey(4), 4), c18Writer(1, scanKey(0), 5)}}, "two-writers")
		}
	}
	if tier == "thorough" {
		for n := 0; n < 300; n++ {
			en := leveldbEngines()[rng.Intn(2)]
			scan := scans[rng.Intn(len(scans))]
			var ws [][]Call
			for t := 0; t < 2; t++ {
				var cs []Call
				for k := 0; k < 3; k++ {
					cs = append(cs, c18Writer(rng.Intn(4), scanKey(rng.Intn(nrows)), n*10+t*3+k))
				}
				ws = append(ws, cs)
			}
			var sched []int
			for i := 0; i < 40; i++ {
				sched = append(sched, rng.Intn(3))
			}
			add(en, scan, sched, ws, "random")
		}
	}
	runConcJobs(sink, jobs)
	// a table that lives in table files (15 MB), cleared once, twice, cleared-written-cleared while one
	// scan is parked at its hand-overs: the scan must end OK with ascending keys (oracle only: the rows
	// are too large for the model's evaluation)
	for _, en := range leveldbEngines() {
		drop := Call{Req: Req{Kind: "drop", Table: concTable, All: true}, Now: 1}
		wr := Call{Req: Req{Kind: "mutate", Table: concTable, Key: scanKey(30), Muts: []Mutation{{Kind: "set", Fam: "cf", Q: []byte("late"), Ts: 1000, V: []byte("w")}}}, Now: 5000}
		scan := Call{Req: Req{Kind: "read", Table: concTable}, Now: 1}
		for _, sc := range []struct {
			writers []Call
			sched   []int
			tag     string
		}{
			{[]Call{drop}, []int{0, 0, 1, 0, 0, 0}, "big-one-clear"},
			{[]Call{drop, drop}, []int{0, 0, 1, 1, 0, 0, 0}, "big-two-clears"},
			{[]Call{drop, wr, drop}, []int{0, 0, 1, 0, 1, 1, 1, 0, 1, 0, 0}, "big-clear-write-clear"},
		} {
			cc := runConc(en, bigTableSetup(), [][]Call{{scan}, sc.writers}, sc.sched, nil, nil, sc.tag)
			if cc == nil {
				continue
			}
			pc := cc.pseudo()
			for i := range pc.Obs {
				if pc.Prog[i].Req.Kind == "read" && pc.Obs[i].Panic == "" {
					if pc.Obs[i].Code != 0 {
						pc.Obs[i].Notes = append(pc.Obs[i].Notes, fmt.Sprintf("the scan ended with status %d", pc.Obs[i].Code))
					}
					for k := 1; k < len(pc.Obs[i].Rows); k++ {
						if string(pc.Obs[i].Rows[k-1].Key) >= string(pc.Obs[i].Rows[k].Key) {
							pc.Obs[i].Notes = append(pc.Obs[i].Notes, "the scan's rows are not in strictly ascending key order")
						}
					}
				}
			}
			js, _ := json.Marshal(cc)
			sink.AddOracleOnly(pc, string(js), js, true)
		}
	}
	// free-running: the cooperative schedules never have a second writer queue up while the scan itself
	// waits for the lock (the waiter rule), and interleave only at the yield points; here scans over a
	// RowSet that mixes ranges and single keys run against writers of unrelated rows as the runtime
	// schedules them. Judged by the property: every scan ends OK with exactly the RowSet's (never
	// written) rows in ascending order.
	for _, en := range leveldbEngines() { // the btree engine iterates the live tree and documents that it offers no such guarantee
		dur := 1500 * time.Millisecond
		if tier == "thorough" {
			dur = 8 * time.Second
		}
		pc := c18FreeRun(en, dur)
		js, _ := json.Marshal(pc)
		sink.AddOracleOnly(pc, string(js), js, true)
	}
	sink.Close(fmt.Sprintf("(plus, free-running on both leveldb engines: scans over a RowSet mixing ranges and single keys against writers of unrelated rows for a second or more; every scan must end OK with exactly its rows) ReadRows scans over %d rows of 1050 cells each (every row forces a hand-over: more than the flush threshold of pending chunks) with full-table, two-range and keys+range+limit RowSets; at every hand-over a writer (MutateRow set+delete-column, DeleteFromRow, ReadModifyWriteRow, MutateRows incl. a new row) acts on the row before / at / after the scan position, plus schedules where a writer is parked inside its section when the scan wants the lock back and two-writer schedules; both leveldb engines; every scheduler step (parked / blocked / returned + rows) is compared with the snapshot-per-range interleaving model, then a full read; thorough adds random three-thread schedules; non-trivial = some step was blocked", nrows), false)
}

// ---------------- C16: GC hand-over against writers + sequential policy programs ----------------

func genC16(out, tier string, rng *rand.Rand) {
	sink := NewSink(out, concPrelude, "ccase", "check_conc", 10)
	const nrows = 230
	rule := &GcRule{Kind: "union", Rules: []GcRule{{Kind: "maxversions", N: 1}, {Kind: "maxage", Secs: 1000, Nanos: 0}}}
	setup := []Call{{Req: Req{Kind: "create", Parent: parentA, Tid: "t1", Fams: []FamDef{{Name: "cf", Rule: rule}, {Name: "cf2"}}}, Now: 1000000}}
	gckey := func(i int) []byte { return []byte(fmt.Sprintf("g%03d", i)) }
	for i := 0; i < nrows; i++ {
		ms := []Mutation{{Kind: "set", Fam: "cf", Q: []byte("a"), Ts: 5000000000, V: []byte("new")}, {Kind: "set", Fam: "cf", Q: []byte("a"), Ts: 4000000000, V: []byte("old")}}
		if i%7 == 0 || i == 99 || i == 199 {
			// the row disappears (also the last row of each GC batch)
			ms = []Mutation{{Kind: "set", Fam: "cf", Q: []byte("a"), Ts: 1000, V: []byte("ancient")}}
		}
		if i%5 == 0 {
			ms = append(ms, Mutation{Kind: "set", Fam: "cf2", Q: []byte("keep"), Ts: 1000, V: []byte("k")})
		}
		setup = append(setup, Call{Req: Req{Kind: "mutate", Table: concTable, Key: gckey(i), Muts: ms}, Now: 1000000})
	}
	gcNow := int64(5000000000 + 1000*1000000) // 1000 s after the newest cells: the boundary cell is exactly at the cut-off
	gc := Call{Req: Req{Kind: "gc", Table: concTable}, Now: gcNow}
	final := []Call{{Req: Req{Kind: "read", Table: concTable}, Now: 9000000}}
	writer := func(kind, row, variant int) Call {
		now := gcNow + int64(variant)*1000
		switch kind {
		case 0:
			return Call{Req: Req{Kind: "mutate", Table: concTable, Key: gckey(row), Muts: []Mutation{{Kind: "set", Fam: "cf", Q: []byte("a"), Ts: 6000000000, V: []byte(fmt.Sprint("raced", variant))}, {Kind: "set", Fam: "cf", Q: []byte("b"), Ts: 1000, V: []byte("condemned-on-arrival")}}}, Now: now}
		case 1:
			return Call{Req: Req{Kind: "rmw", Table: concTable, Key: gckey(row), Rules: []Rule{{Kind: "append", Fam: "cf", Q: []byte("a"), V: []byte("+r")}}}, Now: now}
		case 3:
			return Call{Req: Req{Kind: "mutate", Table: concTable, Key: gckey(row), Muts: []Mutation{{Kind: "delrow"}}}, Now: now}
		}
		return Call{Req: Req{Kind: "mutate", Table: concTable, Key: []byte(fmt.Sprintf("g%03dx", row)), Muts: []Mutation{{Kind: "set", Fam: "cf", Q: []byte("a"), Ts: 6000000000, V: []byte("brand-new-row")}}}, Now: now}
	}
	var jobs []concJob
	for _, en := range engines() {
		for handover := 1; handover <= 2; handover++ {
			for kind := 0; kind < 4; kind++ {
				for _, row := range []int{20, 98, 99, 100, 101, 150, 198, 199, 200, 229} {
					if tier == "quick" && (row+kind+handover)%2 == 0 {
						continue
					}
					var sched []int
					for i := 0; i < handover; i++ {
						sched = append(sched, 0)
					}
					sched = append(sched, 1, 1, 1)
					jobs = append(jobs, concJob{en, setup, [][]Call{{gc}, {writer(kind, row, row)}}, sched, final, nil, fmt.Sprintf("gc-h%d-w%d-r%d", handover, kind, row)})
				}
			}
		}
		// writer parked inside its section when the pass wants the lock; pass started while a writer holds it
		jobs = append(jobs, concJob{en, setup, [][]Call{{gc}, {writer(0, 150, 1), writer(1, 30, 2)}}, []int{0, 1, 1, 0, 0, 1, 0}, final, nil, "gc-writer-holds"})
		jobs = append(jobs, concJob{en, setup, [][]Call{{gc}, {writer(0, 10, 3)}}, []int{1, 1, 0, 0, 1, 0}, final, nil, "gc-starts-blocked"})
	}
	runConcJobs(sink, jobs)
	// the policy half: sequential programs with forced passes (random rule trees, contents, clocks)
	n, length := 150, 30
	if tier == "thorough" {
		n, length = 3000, 50
	}
	var tasks []Task
	for i := 0; i < n; i++ {
		prog := genProgram(rng, "C16", length)
		for _, en := range engines() {
			tasks = append(tasks, Task{en, "policy", prog})
		}
	}
	for _, en := range engines() {
		for _, prog := range c16RulePrograms() {
			tasks = append(tasks, Task{en, "rule-changes", prog})
		}
	}
	// cut-off boundaries: a cell exactly at, one microsecond-step below and above the max-age cut-off
	for _, en := range engines() {
		for _, d := range []int64{-1000, 0, 1000} {
			for _, secs := range []int64{0, 1, 3600} {
				cut := int64(7200000000)
				prog := []Call{{Req: Req{Kind: "create", Parent: parentA, Tid: "t1", Fams: []FamDef{{Name: "cf", Rule: &GcRule{Kind: "maxage", Secs: secs, Nanos: 999}}}}, Now: 1000},
					{Req: Req{Kind: "mutate", Table: concTable, Key: []byte("r"), Muts: []Mutation{{Kind: "set", Fam: "cf", Q: []byte("q"), Ts: cut + d, V: []byte("edge")}, {Kind: "set", Fam: "cf", Q: []byte("q"), Ts: cut + 5000, V: []byte("newer")}}}, Now: 1000},
					{Req: Req{Kind: "gc", Table: concTable}, Now: cut + secs*1000000},
					{Req: Req{Kind: "read", Table: concTable}, Now: 1000}}
				tasks = append(tasks, Task{en, "boundary", prog})
			}
		}
	}
	type res struct {
		c    Case
		text string
		js   []byte
	}
	rs := make([]res, len(tasks))
	parallelN(16, len(tasks), func(i int) {
		o := runProg(tasks[i].Engine, tasks[i].Prog)
		c := Case{Store: tasks[i].Engine.name, Tag: tasks[i].Tag, Prog: tasks[i].Prog, Obs: o}
		js, _ := json.Marshal(c)
		rs[i] = res{c, c.coq(), js}
	})
	for _, r := range rs {
		sink.AddPreV("seq", "check_all", "(list call * list bresp)", r.c, r.text, r.js, progNontrivial(r.c))
	}
	{
		// the background loop's pass (not forced) runs only on a table that is dirty and has been neither read
		// nor written for the quiescence period (5 minutes): with the table's last use backdated, the pass
		// collects when both are old and leaves the table alone when either is recent or nothing was written
		for _, en := range engines() {
			pc := c16Quiescence(en)
			js, _ := json.Marshal(pc)
			sink.AddOracleOnly(pc, string(js), js, true)
		}
	}
	sink.Close(fmt.Sprintf("(c, oracle only: the unforced pass of the background loop with the table's last read / write backdated to both sides of the quiescence period: it collects iff the table is dirty and was neither read nor written for 5 minutes) (a) a forced GC pass over %d rows (union of max-versions 1 and max-age 1000 s, the newest cells exactly at the cut-off; every 7th row loses all cells; a rule-less family) interleaved with a writer (MutateRow, ReadModifyWriteRow, a new row) acting during the first or second lock hand-over on rows already / not yet visited, and schedules where the writer holds the lock when the pass wants it; 3 engines; compared step by step with the interleaving model, then a full read. (b) tag policy/boundary: sequential random programs with random GC rule trees and forced passes, and cells exactly at / around the max-age cut-off. non-trivial = a blocked step (a) or a successful write and non-empty read (b)", nrows), false)
}

// bigTableSetup: a table large enough to live in leveldb table files (24 rows of 1050 cells of 600
// bytes, about 15 MB): iterators then read through table readers, which is where closing or swapping
// the database under a scan shows.
func bigTableSetup() []Call {
	setup := []Call{{Req: Req{Kind: "create", Parent: parentA, Tid: "t1", Fams: []FamDef{{Name: "cf"}}}, Now: 1000000}}
	big := bytes.Repeat([]byte("v"), 600)
	for i := 0; i < 24; i++ {
		b := BulkRow{Key: scanKey(i), Fam: "cf", NQ: 3, NV: 350, Base: 1000000, V: big}
		setup = append(setup, Call{Req: Req{Kind: "mutate", Table: concTable, Key: b.Key, Muts: b.muts()}, Now: 1000000})
	}
	return setup
}

// c18FreeRun: see the free-running block of genC18
func c18FreeRun(en Engine, dur time.Duration) Case {
	st, cleanup := en.mk()
	defer cleanup()
	e := NewEmu(st)
	setup, _ := c18Setup(20)
	for _, c := range setup {
		e.ExecFast(c)
	}
	rs := Req{Kind: "read", Table: concTable,
		Ranges: []RowRange{{S: Bound{Kind: "closed", K: scanKey(0)}, E: Bound{Kind: "open", K: scanKey(6)}}, {S: Bound{Kind: "closed", K: scanKey(15)}, E: Bound{Kind: "unset"}}},
		Keys:   [][]byte{scanKey(8), scanKey(10), scanKey(12), scanKey(13)}}
	var want []string
	for _, i := range []int{0, 1, 2, 3, 4, 5, 8, 10, 12, 13, 15, 16, 17, 18, 19} {
		want = append(want, string(scanKey(i)))
	}
	var mu sync.Mutex
	var notes []string
	note := func(f string, a ...interface{}) {
		mu.Lock()
		if len(notes) < 5 {
			notes = append(notes, "free-running: "+fmt.Sprintf(f, a...))
		}
		mu.Unlock()
	}
	stop := time.Now().Add(dur)
	var scans, writes int64
	var wg sync.WaitGroup
	for g := 0; g < 3; g++ {
		wg.Add(1)
		go func() {
			defer wg.Done()
			for time.Now().Before(stop) {
				o := e.ExecFast(Call{Req: rs, Now: 1})
				atomic.AddInt64(&scans, 1)
				if o.Panic != "" || o.Code != 0 {
					note("a scan ended with status %d %s", o.Code, o.Panic)
					continue
				}
				var got []string
				for _, r := range o.Rows {
					got = append(got, string(r.Key))
				}
				if strings.Join(got, ",") != strings.Join(want, ",") {
					note("a scan returned rows %v, its RowSet names %v (none of them is ever written)", got, want)
				}
			}
		}()
	}
	for g := 0; g < 4; g++ {
		wg.Add(1)
		go func(g int) {
			defer wg.Done()
			for i := 0; time.Now().Before(stop); i++ {
				key := []byte(fmt.Sprintf("k07-w%d", g)) // between the RowSet's pieces, in none of them
				var c Call
				switch i % 3 {
				case 0:
					c = Call{Req: Req{Kind: "mutate", Table: concTable, Key: key, Muts: []Mutation{{Kind: "set", Fam: "cf", Q: []byte("q"), Ts: 1000, V: []byte("w")}}}, Now: 5000}
				case 1:
					c = Call{Req: Req{Kind: "rmw", Table: concTable, Key: key, Rules: []Rule{{Kind: "append", Fam: "cf", Q: []byte("s"), V: []byte("+")}}}, Now: 5000}
				default:
					c = Call{Req: Req{Kind: "mutate", Table: concTable, Key: key, Muts: []Mutation{{Kind: "delrow"}}}, Now: 5000}
				}
				if o := e.ExecFast(c); o.Code != 0 {
					note("a write of an unrelated row ended with status %d %s", o.Code, o.Panic)
				}
				atomic.AddInt64(&writes, 1)
			}
		}(g)
	}
	done := make(chan struct{})
	go func() { wg.Wait(); close(done) }()
	select {
	case <-done:
		closeEmu(e)
	case <-time.After(dur + 15*time.Second):
		note("scans and writers did not finish within 15 s of their deadline (%d scans, %d writes done): the table lock is wedged", atomic.LoadInt64(&scans), atomic.LoadInt64(&writes))
	}
	mu.Lock()
	defer mu.Unlock()
	return Case{Store: en.name, Tag: "free-running", Prog: []Call{{Req: rs, Now: 1}}, Obs: []Resp{{Code: 0, Kind: "rows", Notes: append([]string{}, notes...)}}}
}

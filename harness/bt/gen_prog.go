package main

import (
	"bytes"
	"encoding/binary"
	"encoding/json"
	"fmt"
	"math/rand"
	"time"
)

// Random request programs over a small adversarial universe.  One generator serves the
// sequential Bigtable properties; the focus selects the operation weights.

const parentA = "projects/p/instances/i"
const parentB = "projects/p/instances/j"

var tableIDs = []string{"t1", "t2"}

func tname(parent, id string) string { return parent + "/tables/" + id }

var families = []string{"cf", "cf2", "x"}
var keyUniverse = [][]byte{[]byte("a"), []byte("a\x00"), []byte("a\x00\x00"), []byte("ab"), []byte("b"), {0}, {0xff}, []byte("row-7"), {0xff, 0xff}, []byte("b\xff"), []byte("a\xff"), []byte("a\xffz"), []byte("c"), []byte("b\x00"), []byte("a\nb")}
var qualifiers = [][]byte{{}, []byte("q"), []byte("q2"), {0, 0xff}, []byte("zz"), []byte("q\n"), []byte("2q")}
var tsPool = []int64{0, 1000, 2000, 3000, 1000000, 9223372036854775000, -1, -1, 1, 999, -1000, -2, 9223372036854775807, 1500}
var clocks = []int64{1000000000, 1234567, 5000, 4611686018427387904, 0, 2500, 1790000000000000}

func be64(v int64) []byte {
	b := make([]byte, 8)
	binary.BigEndian.PutUint64(b, uint64(v))
	return b
}

var values = [][]byte{{}, []byte("v"), []byte("value-2"), be64(5), be64(-1), {0xff, 0, 1}, be64(9223372036854775807), []byte("1234567"), []byte("123456789"), []byte("line1\nline2"), []byte("\n")}

type progGen struct {
	rng   *rand.Rand
	focus string
	prog  []Call
	tbl   string // main table
	live  [][]byte
}

func (g *progGen) pickB(xs [][]byte) []byte { return xs[g.rng.Intn(len(xs))] }
func (g *progGen) fam() string {
	if g.rng.Intn(12) == 0 {
		return "nope"
	}
	return families[g.rng.Intn(len(families))]
}
func (g *progGen) key() []byte {
	if len(g.live) > 0 && g.rng.Intn(10) < 6 {
		return g.live[g.rng.Intn(len(g.live))]
	}
	return g.pickB(keyUniverse)
}
func (g *progGen) table() string {
	switch g.rng.Intn(14) {
	case 0:
		return tname(parentA, "t2")
	case 1:
		return tname(parentB, "t1")
	case 2:
		return tname(parentA, "missing")
	}
	return g.tbl
}
func (g *progGen) now() int64 { return clocks[g.rng.Intn(len(clocks))] }
func (g *progGen) add(r Req) {
	c := Call{Req: r, Now: g.now()}
	if n := countSamples(r.Filter) + countSamples(r.Pred); n > 0 {
		// enough coins for every row the filter may be evaluated on
		for i := 0; i < n*40; i++ {
			c.Coins = append(c.Coins, g.rng.Intn(2) == 0)
		}
	}
	g.prog = append(g.prog, c)
}

func countSamples(f *Filter) int {
	if f == nil {
		return 0
	}
	n := 0
	if f.Kind == "sample" {
		n = 1
	}
	for _, s := range f.Subs {
		n += countSamples(s)
	}
	return n + countSamples(f.P) + countSamples(f.T) + countSamples(f.F)
}

func (g *progGen) mutation() Mutation {
	switch c := g.rng.Intn(20); {
	case c < 11:
		return Mutation{Kind: "set", Fam: g.fam(), Q: g.pickB(qualifiers), Ts: tsPool[g.rng.Intn(len(tsPool))], V: g.pickB(values)}
	case c < 15:
		m := Mutation{Kind: "delcol", Fam: g.fam(), Q: g.pickB(qualifiers)}
		if g.rng.Intn(4) != 0 {
			m.HasTR = true
			pool := []int64{0, 1000, 2000, 3000, 1000000, 9223372036854775000, 1500, -1000}
			m.S, m.E = pool[g.rng.Intn(len(pool))], pool[g.rng.Intn(len(pool))]
		}
		return m
	case c < 17:
		return Mutation{Kind: "delfam", Fam: g.fam()}
	case c < 19:
		return Mutation{Kind: "delrow"}
	}
	return Mutation{Kind: "unset"}
}

func (g *progGen) muts(max int) []Mutation {
	var ms []Mutation
	for n := g.rng.Intn(max + 1); n > 0; n-- {
		ms = append(ms, g.mutation())
	}
	return ms
}

func (g *progGen) gcRule(depth int) *GcRule {
	switch c := g.rng.Intn(10); {
	case c < 4:
		return &GcRule{Kind: "maxversions", N: []int64{1, 2, 3, 0, -1, 100}[g.rng.Intn(6)]}
	case c < 7:
		secs := []int64{0, 1, 1000, 3600, -5, 1790000000}[g.rng.Intn(6)]
		nanos := []int64{0, 1000, 999, 1500000, 500}[g.rng.Intn(5)]
		return &GcRule{Kind: "maxage", Secs: secs, Nanos: nanos}
	case c < 9 && depth > 0:
		u := &GcRule{Kind: "union"}
		for n := g.rng.Intn(3); n >= 0; n-- {
			u.Rules = append(u.Rules, *g.gcRule(depth - 1))
		}
		return u
	}
	return &GcRule{Kind: "other"}
}

func (g *progGen) optRule() *GcRule {
	if g.rng.Intn(3) == 0 {
		return nil
	}
	return g.gcRule(2)
}

func (g *progGen) regex() *Regex {
	if g.rng.Intn(14) == 0 {
		return &Regex{Bad: true}
	}
	if g.rng.Intn(8) == 0 {
		return &Regex{Re: &Re{Kind: "star", A: &Re{Kind: "any"}}} // the everyday ".*"
	}
	return &Regex{Re: g.re(3)}
}

// asciiRegex: family_name_regex_filter is a proto string field, which must be valid UTF-8
func (g *progGen) asciiRegex() *Regex {
	r := g.regex()
	if r.Re != nil {
		asciiOnly(r.Re)
	}
	return r
}
func asciiOnly(r *Re) {
	if r == nil {
		return
	}
	if r.Kind == "lit" && r.B > 127 {
		r.B = 'x'
	}
	if r.Kind == "class" {
		for i := range r.Ranges {
			if r.Ranges[i][0] > 127 {
				r.Ranges[i][0] = 100
			}
			if r.Ranges[i][1] > 127 {
				r.Ranges[i][1] = 127
			}
		}
	}
	asciiOnly(r.A)
	asciiOnly(r.C)
}

var litPool = []int{'a', 'b', 'q', 'v', '2', 0, 0xff, '.', '*', '\n', 'c', 'f', '-', 'r', 0x80}

func (g *progGen) re(depth int) *Re {
	switch c := g.rng.Intn(12); {
	case c < 4 || depth == 0:
		return &Re{Kind: "lit", B: litPool[g.rng.Intn(len(litPool))]}
	case c < 5:
		return &Re{Kind: "any"}
	case c < 6:
		lo := litPool[g.rng.Intn(len(litPool))]
		hi := lo + g.rng.Intn(30)
		if hi > 255 {
			hi = 255
		}
		return &Re{Kind: "class", Neg: g.rng.Intn(3) == 0, Ranges: [][2]int{{lo, hi}}}
	case c < 8:
		return &Re{Kind: "cat", A: g.re(depth - 1), C: g.re(depth - 1)}
	case c < 9:
		return &Re{Kind: "alt", A: g.re(depth - 1), C: g.re(depth - 1)}
	case c < 11:
		return &Re{Kind: "star", A: g.re(depth - 1)}
	}
	return &Re{Kind: "empty"}
}

func (g *progGen) bound(pool [][]byte) *Bound {
	if g.rng.Intn(14) == 0 {
		// a bound explicitly set to the empty byte string
		return &Bound{Kind: []string{"closed", "open"}[g.rng.Intn(2)], K: []byte{}}
	}
	switch g.rng.Intn(3) {
	case 0:
		return &Bound{Kind: "unset"}
	case 1:
		return &Bound{Kind: "closed", K: g.pickB(pool)}
	}
	return &Bound{Kind: "open", K: g.pickB(pool)}
}

func (g *progGen) leaf() *Filter {
	counts := []int64{0, 1, 2, 3, -1, 100}
	switch g.rng.Intn(17) {
	case 0:
		return &Filter{Kind: "pass", Flag: g.rng.Intn(8) != 0}
	case 1:
		return &Filter{Kind: "block", Flag: g.rng.Intn(8) != 0}
	case 2:
		return &Filter{Kind: "rowkey", Rx: g.regex()}
	case 3:
		return &Filter{Kind: "famregex", Rx: &Regex{Re: &Re{Kind: "cat", A: &Re{Kind: "lit", B: 'c'}, C: &Re{Kind: "star", A: &Re{Kind: "any"}}}}}
	case 4:
		return &Filter{Kind: "qualregex", Rx: g.regex()}
	case 5:
		return &Filter{Kind: "valregex", Rx: g.regex()}
	case 6:
		return &Filter{Kind: "colrange", Fam: g.fam(), S: g.bound(qualifiers), E: g.bound(qualifiers)}
	case 7:
		return &Filter{Kind: "valrange", S: g.bound(values), E: g.bound(values)}
	case 8:
		pool := []int64{0, 1000, 2000, 3000, 1000000, 1500, 9223372036854775000}
		return &Filter{Kind: "tsrange", TS: pool[g.rng.Intn(len(pool))], TE: pool[g.rng.Intn(len(pool))]}
	case 9:
		return &Filter{Kind: "rowlimit", N: counts[g.rng.Intn(len(counts))]}
	case 10:
		return &Filter{Kind: "rowoffset", N: counts[g.rng.Intn(len(counts))]}
	case 11:
		return &Filter{Kind: "collimit", N: counts[g.rng.Intn(len(counts))]}
	case 12:
		return &Filter{Kind: "strip"}
	case 13:
		return &Filter{Kind: "label", Label: []string{"lbl", "a-1", "UPPER", "", "ok_but_underscore", "x"}[g.rng.Intn(6)]}
	case 14:
		return &Filter{Kind: "sample", Prob: []float64{0.5, 0.5, 0.5, 0, 1, -0.5, 1.5}[g.rng.Intn(7)]}
	case 15:
		return &Filter{Kind: "famregex", Rx: g.asciiRegex()}
	}
	return &Filter{Kind: "pass", Flag: true}
}

func (g *progGen) filter(depth int) *Filter {
	if depth == 0 || g.rng.Intn(3) == 0 {
		return g.leaf()
	}
	switch g.rng.Intn(3) {
	case 0, 1:
		kind := "chain"
		if g.rng.Intn(2) == 0 {
			kind = "interleave"
		}
		n := 2 + g.rng.Intn(2)
		if g.rng.Intn(15) == 0 {
			n = g.rng.Intn(2)
		}
		f := &Filter{Kind: kind}
		for i := 0; i < n; i++ {
			f.Subs = append(f.Subs, g.filter(depth-1))
		}
		return f
	}
	f := &Filter{Kind: "condition", P: g.filter(depth - 1)}
	if g.rng.Intn(4) != 0 {
		f.T = g.filter(depth - 1)
	}
	if g.rng.Intn(4) != 0 {
		f.F = g.filter(depth - 1)
	}
	return f
}

func (g *progGen) rowRange() RowRange {
	b := func() Bound { return *g.bound(keyUniverse) }
	return RowRange{S: b(), E: b()}
}

func (g *progGen) fullRead(t string) { g.add(Req{Kind: "read", Table: t}) }

func (g *progGen) opWrite() {
	t, k := g.table(), g.key()
	g.live = append(g.live, k)
	if g.rng.Intn(4) == 0 {
		var es []Entry
		for n := 1 + g.rng.Intn(3); n > 0; n-- {
			kk := g.key()
			g.live = append(g.live, kk)
			es = append(es, Entry{Key: kk, Muts: g.muts(4)})
		}
		g.add(Req{Kind: "mutaterows", Table: t, Entries: es})
	} else {
		g.add(Req{Kind: "mutate", Table: t, Key: k, Muts: g.muts(5)})
	}
}

func (g *progGen) opRead() {
	t := g.table()
	r := Req{Kind: "read", Table: t}
	if g.rng.Intn(2) == 0 {
		for n := g.rng.Intn(3); n > 0; n-- {
			r.Keys = append(r.Keys, g.key())
		}
		for n := g.rng.Intn(3); n > 0; n-- {
			r.Ranges = append(r.Ranges, g.rowRange())
		}
	}
	if g.rng.Intn(3) == 0 || g.focus == "C05" {
		r.Filter = g.filter(3)
	}
	if g.rng.Intn(4) == 0 {
		r.Limit = []int64{1, 2, 3, -1}[g.rng.Intn(4)]
	}
	g.add(r)
}

func (g *progGen) opCam() {
	r := Req{Kind: "cam", Table: g.table(), Key: g.key(), TM: g.muts(3), FM: g.muts(3)}
	g.live = append(g.live, r.Key)
	if g.rng.Intn(5) != 0 {
		r.Pred = g.filter(2)
	}
	g.add(r)
	if g.rng.Intn(2) == 0 && r.Pred != nil {
		// the same evaluator through ReadRows on that row
		g.add(Req{Kind: "read", Table: r.Table, Keys: [][]byte{r.Key}, Filter: r.Pred})
	}
}

func (g *progGen) opRmw() {
	r := Req{Kind: "rmw", Table: g.table(), Key: g.key()}
	g.live = append(g.live, r.Key)
	amounts := []int64{1, -1, 0, 9223372036854775807, -9223372036854775808, 5}
	for n := g.rng.Intn(4); n > 0; n-- {
		switch g.rng.Intn(9) {
		case 0, 1, 2, 3:
			r.Rules = append(r.Rules, Rule{Kind: "incr", Fam: g.fam(), Q: g.pickB(qualifiers[:3]), Amt: amounts[g.rng.Intn(len(amounts))]})
		case 4, 5, 6, 7:
			r.Rules = append(r.Rules, Rule{Kind: "append", Fam: g.fam(), Q: g.pickB(qualifiers[:3]), V: g.pickB(values)})
		default:
			r.Rules = append(r.Rules, Rule{Kind: "unset", Fam: g.fam(), Q: g.pickB(qualifiers)})
		}
	}
	g.add(r)
}

func (g *progGen) opAdmin() {
	switch c := g.rng.Intn(20); {
	case c < 3:
		var fs []FamDef
		for _, f := range families {
			if g.rng.Intn(3) != 0 {
				fs = append(fs, FamDef{Name: f, Rule: g.optRule()})
			}
		}
		g.add(Req{Kind: "create", Parent: []string{parentA, parentA, parentB}[g.rng.Intn(3)], Tid: tableIDs[g.rng.Intn(2)], Fams: fs})
	case c < 5:
		g.add(Req{Kind: "delete", Table: g.table()})
	case c < 7:
		g.add(Req{Kind: "get", Table: g.table()})
	case c < 9:
		g.add(Req{Kind: "list", Parent: []string{parentA, parentB, "projects/p/instances"}[g.rng.Intn(3)]})
	case c < 14:
		r := Req{Kind: "modify", Table: g.table()}
		for n := 1 + g.rng.Intn(3); n > 0; n-- {
			id := append(append([]string{}, families...), "newfam")[g.rng.Intn(4)]
			switch g.rng.Intn(7) {
			case 0, 1:
				r.Mods = append(r.Mods, FMod{Kind: "create", ID: id, Rule: g.optRule()})
			case 2, 3:
				r.Mods = append(r.Mods, FMod{Kind: "update", ID: id, Rule: g.optRule()})
			case 4, 5:
				r.Mods = append(r.Mods, FMod{Kind: "drop", ID: id})
			default:
				r.Mods = append(r.Mods, FMod{Kind: "none", ID: id})
			}
		}
		g.add(r)
	case c < 19:
		r := Req{Kind: "drop", Table: g.table()}
		switch g.rng.Intn(8) {
		case 0:
			r.All = true
		case 1:
			r.AllFalse = g.rng.Intn(2) == 0 // "delete all: false" names nothing, like no target at all
		default:
			r.HasPfx = true
			r.Prefix = [][]byte{[]byte("a"), []byte("a\x00"), {0xff}, []byte("b"), {}, []byte("ro"), []byte("ab"), {0xff, 0xff}, []byte("zzz"), []byte("a\xff"), []byte("b\xff"), []byte("a\xff\xff")}[g.rng.Intn(12)]
		}
		g.add(r)
	default:
		g.add(Req{Kind: "sample", Table: g.table()})
	}
}

func (g *progGen) opGC() { g.add(Req{Kind: "gc", Table: g.table()}) }

var btWeights = map[string][6]int{
	//       write read cam rmw admin gc
	"C01": {55, 30, 3, 4, 6, 2},
	"C03": {35, 50, 2, 3, 8, 2},
	"C05": {35, 50, 6, 2, 5, 2},
	"C12": {30, 15, 45, 4, 4, 2},
	"C13": {25, 15, 3, 50, 5, 2},
	"C14": {30, 15, 3, 4, 45, 3},
	"C16": {40, 12, 2, 6, 15, 25},
	"C17": {30, 25, 10, 10, 18, 7},
}

func genProgram(rng *rand.Rand, focus string, length int) []Call {
	g := &progGen{rng: rng, focus: focus, tbl: tname(parentA, "t1")}
	w := btWeights[focus]
	total := 0
	for _, x := range w {
		total += x
	}
	fams := []FamDef{{Name: "cf", Rule: g.optRule()}, {Name: "cf2", Rule: g.optRule()}}
	if focus != "C16" && rng.Intn(2) == 0 {
		fams = []FamDef{{Name: "cf"}, {Name: "cf2"}, {Name: "x"}}
	}
	g.add(Req{Kind: "create", Parent: parentA, Tid: "t1", Fams: fams})
	if rng.Intn(3) == 0 {
		g.add(Req{Kind: "create", Parent: parentB, Tid: "t1", Fams: []FamDef{{Name: "cf"}}})
	}
	for len(g.prog) < length {
		x := rng.Intn(total)
		k := 0
		for x >= w[k] {
			x -= w[k]
			k++
		}
		before := len(g.prog)
		switch k {
		case 0:
			g.opWrite()
		case 1:
			g.opRead()
		case 2:
			g.opCam()
		case 3:
			g.opRmw()
		case 4:
			g.opAdmin()
		default:
			g.opGC()
		}
		if k != 1 && rng.Intn(10) < 6 {
			g.fullRead(g.prog[before].Req.tableOr(g.tbl))
		}
	}
	g.fullRead(g.tbl)
	g.add(Req{Kind: "sample", Table: g.tbl})
	g.add(Req{Kind: "get", Table: g.tbl})
	return g.prog
}

func (r Req) tableOr(d string) string {
	if r.Table != "" {
		return r.Table
	}
	return d
}

func progNontrivial(c Case) bool {
	okWrite, okRead := false, false
	for i, r := range c.Prog {
		o := c.Obs[i]
		switch r.Req.Kind {
		case "mutate", "mutaterows", "cam", "rmw":
			if o.Code == 0 {
				okWrite = true
			}
		case "read":
			if o.Code == 0 && len(o.Rows) > 0 {
				okRead = true
			}
		}
	}
	return okWrite && okRead
}

func genPrograms(prop, out, tier string, rng *rand.Rand) {
	sink := NewSink(out, btPrelude, "(list call * list bresp)", "check_all", 40)
	n, length := 250, 30
	if tier == "thorough" {
		n, length = 4000, 60
	}
	var tasks []Task
	for i := 0; i < n; i++ {
		prog := genProgram(rng, prop, length)
		for _, en := range engines() {
			tasks = append(tasks, Task{en, "random", prog})
		}
	}
	RunTasks(sink, tasks, progNontrivial)
	exhaustive := false
	if prop == "C12" {
		// directed: predicates that never look at cells (and compositions of them), on an existing and on a
		// missing row; the branch mutations do not touch the existing cells, so "nothing else changes" shows
		t := tname(parentA, "t1")
		rk := func(lit byte) *Filter {
			return &Filter{Kind: "rowkey", Rx: &Regex{Re: &Re{Kind: "cat", A: &Re{Kind: "lit", B: int(lit)}, C: &Re{Kind: "star", A: &Re{Kind: "any"}}}}}
		}
		base := []*Filter{{Kind: "pass", Flag: true}, {Kind: "block", Flag: true}, rk('r'), rk('z'), {Kind: "sample", Prob: 0.5}, {Kind: "strip"}, {Kind: "rowlimit", N: 0}, {Kind: "collimit", N: 1}}
		var preds []*Filter
		preds = append(preds, base...)
		for _, a := range base[:5] {
			for _, b := range base[:5] {
				preds = append(preds, &Filter{Kind: "interleave", Subs: []*Filter{a, b}}, &Filter{Kind: "chain", Subs: []*Filter{a, b}},
					&Filter{Kind: "condition", P: a, T: b}, &Filter{Kind: "condition", P: a, F: b, T: &Filter{Kind: "block", Flag: true}})
			}
		}
		var dtasks []Task
		for _, en := range engines() {
			for pi, p := range preds {
				for _, key := range []string{"r1", "absent"} {
					cam := Call{Req: Req{Kind: "cam", Table: t, Key: []byte(key), Pred: p,
						TM: []Mutation{{Kind: "set", Fam: "cf2", Q: []byte("true-branch"), Ts: 5000, V: []byte("t")}},
						FM: []Mutation{{Kind: "set", Fam: "cf2", Q: []byte("false-branch"), Ts: 5000, V: []byte("f")}}}, Now: 1000}
					if n := countSamples(p); n > 0 {
						for i := 0; i < 8*n; i++ {
							cam.Coins = append(cam.Coins, (i+pi)%3 == 0)
						}
					}
					prog := []Call{{Req: Req{Kind: "create", Parent: parentA, Tid: "t1", Fams: []FamDef{{Name: "cf"}, {Name: "cf2"}}}, Now: 1000},
						{Req: Req{Kind: "mutate", Table: t, Key: []byte("r1"), Muts: []Mutation{{Kind: "set", Fam: "cf", Q: []byte("c1"), Ts: 1000, V: []byte("1")}, {Kind: "set", Fam: "cf", Q: []byte("c2"), Ts: 2000, V: []byte("2")}, {Kind: "set", Fam: "cf", Q: []byte("c1"), Ts: 3000, V: []byte("3")}}}, Now: 1000},
						cam, {Req: Req{Kind: "read", Table: t}, Now: 1000}}
					dtasks = append(dtasks, Task{en, "row-level-predicates", prog})
				}
			}
		}
		RunTasks(sink, dtasks, progNontrivial)
	}
	if prop == "C14" {
		// directed: every sequence of two or three family modifications on families that hold cells
		t := tname(parentA, "t1")
		kinds := []string{"create", "update", "drop"}
		var dtasks []Task
		for _, en := range engines() {
			for a := 0; a < 3; a++ {
				for b := 0; b < 3; b++ {
					for c := -1; c < 3; c++ {
						for _, ids := range [][3]string{{"cf", "cf", "cf"}, {"cf", "cf2", "cf"}, {"new", "new", "cf"}, {"new", "new", "new"}, {"cf2", "new", "new"}} {
							mods := []FMod{{Kind: kinds[a], ID: ids[0], Rule: &GcRule{Kind: "maxversions", N: 1}}, {Kind: kinds[b], ID: ids[1]}}
							if c >= 0 {
								mods = append(mods, FMod{Kind: kinds[c], ID: ids[2], Rule: &GcRule{Kind: "maxage", Secs: 9}})
							}
							prog := []Call{{Req: Req{Kind: "create", Parent: parentA, Tid: "t1", Fams: []FamDef{{Name: "cf"}, {Name: "cf2"}}}, Now: 1000},
								{Req: Req{Kind: "mutate", Table: t, Key: []byte("r1"), Muts: []Mutation{{Kind: "set", Fam: "cf", Q: []byte("q"), Ts: 1000, V: []byte("1")}, {Kind: "set", Fam: "cf2", Q: []byte("q"), Ts: 1000, V: []byte("2")}}}, Now: 1000},
								{Req: Req{Kind: "mutate", Table: t, Key: []byte("r2"), Muts: []Mutation{{Kind: "set", Fam: "cf", Q: []byte("only"), Ts: 2000, V: []byte("3")}}}, Now: 1000},
								{Req: Req{Kind: "modify", Table: t, Mods: mods}, Now: 1000},
								{Req: Req{Kind: "read", Table: t}, Now: 1000}, {Req: Req{Kind: "get", Table: t}, Now: 1000},
								{Req: Req{Kind: "mutate", Table: t, Key: []byte("r3"), Muts: []Mutation{{Kind: "set", Fam: "cf", Q: []byte("after"), Ts: 3000, V: []byte("4")}}}, Now: 1000},
								{Req: Req{Kind: "read", Table: t}, Now: 1000}}
							dtasks = append(dtasks, Task{en, "modify-sequences", prog})
						}
					}
				}
			}
		}
		RunTasks(sink, dtasks, progNontrivial)
	}
	if prop == "C01" {
		// directed: DeleteFromColumn over every pair of range bounds from the boundary timestamps (0 =
		// unbounded on either side, the smallest and the largest valid timestamp included) on a column
		// holding a cell at each of them
		t := tname(parentA, "t1")
		stamps := []int64{0, 1000, 2000, 3000, 9223372036854775000}
		var sets []Mutation
		for i, ts := range stamps {
			sets = append(sets, Mutation{Kind: "set", Fam: "cf", Q: []byte("q"), Ts: ts, V: []byte(fmt.Sprint("v", i))})
		}
		var dtasks []Task
		for _, en := range engines() {
			for _, lo := range append([]int64{}, stamps...) {
				for _, hi := range append([]int64{4000}, stamps...) {
					prog := []Call{{Req: Req{Kind: "create", Parent: parentA, Tid: "t1", Fams: []FamDef{{Name: "cf"}}}, Now: 1000},
						{Req: Req{Kind: "mutate", Table: t, Key: []byte("r1"), Muts: sets}, Now: 1000},
						{Req: Req{Kind: "mutate", Table: t, Key: []byte("r1"), Muts: []Mutation{{Kind: "delcol", Fam: "cf", Q: []byte("q"), HasTR: true, S: lo, E: hi}}}, Now: 1000},
						{Req: Req{Kind: "read", Table: t}, Now: 1000},
						{Req: Req{Kind: "mutate", Table: t, Key: []byte("r1"), Muts: []Mutation{{Kind: "delcol", Fam: "cf", Q: []byte("q")}}}, Now: 1000},
						{Req: Req{Kind: "read", Table: t}, Now: 1000}}
					dtasks = append(dtasks, Task{en, "delete-ranges", prog})
				}
			}
		}
		// directed: server-assigned timestamps against the injected clock: a write at server time that
		// lands on the timestamp of an existing cell (written explicitly, or at server time within the same
		// millisecond, in another request or earlier in the same one) replaces it; next to older, newer
		// (future) and no cells
		st := func(q, v string) Mutation {
			return Mutation{Kind: "set", Fam: "cf", Q: []byte(q), Ts: -1, V: []byte(v)}
		}
		ex := func(q string, ts int64, v string) Mutation {
			return Mutation{Kind: "set", Fam: "cf", Q: []byte(q), Ts: ts, V: []byte(v)}
		}
		for _, en := range engines() {
			for _, clk := range []int64{2500, 2000, 0, 1234567, 2999} {
				ms := clk - clk%1000
				mut := func(now int64, ms ...Mutation) Call {
					return Call{Req: Req{Kind: "mutate", Table: t, Key: []byte("r1"), Muts: ms}, Now: now}
				}
				rd := Call{Req: Req{Kind: "read", Table: t}, Now: clk}
				progs := [][]Call{
					{mut(clk, ex("q", ms, "explicit")), mut(clk, st("q", "server")), rd, mut(clk, st("q", "server-again")), rd, mut(clk+999-clk%1000, st("q", "same-ms")), rd},
					{mut(clk, st("q", "one"), st("q", "two")), rd, mut(clk, st("q", "three"), ex("q", ms, "four"), st("q", "five")), rd},
					{mut(clk, ex("q", ms+1000, "future"), ex("q", ms, "now")), mut(clk, st("q", "server")), rd, mut(clk+1000, st("q", "later")), rd},
					{mut(clk, st("a", "1")), mut(clk, st("b", "2")), mut(clk, st("a", "3"), st("b", "4")), rd, mut(clk, Mutation{Kind: "delcol", Fam: "cf", Q: []byte("a")}), mut(clk, st("a", "5")), rd},
				}
				if ms >= 1000 {
					progs = append(progs, []Call{mut(clk, ex("q", ms-1000, "older")), mut(clk, st("q", "server")), mut(clk, st("q", "server2")), rd})
				}
				for _, body := range progs {
					prog := append([]Call{{Req: Req{Kind: "create", Parent: parentA, Tid: "t1", Fams: []FamDef{{Name: "cf"}}}, Now: 1000}}, body...)
					dtasks = append(dtasks, Task{en, "server-time", prog})
				}
			}
		}
		RunTasks(sink, dtasks, progNontrivial)
	}
	if prop == "C01" || prop == "C17" {
		// directed: keys, qualifiers and values whose lengths sit on both sides of the sizes at which length
		// prefixes grow (127 / 128 / 129, 300, 16383 / 16384, 20000 bytes): written, read back whole and by
		// key, partly deleted, read again - on every engine (the leveldb engines serialise rows)
		var dtasks []Task
		for _, en := range engines() {
			dtasks = append(dtasks, Task{en, "long-fields", longFieldProgram()})
		}
		RunTasks(sink, dtasks, progNontrivial)
	}
	if prop == "C05" {
		// exhaustive: every leaf of a basis alone (with its boundary arguments), every chain, interleave
		// and condition of two / three basis leaves, and every chain(interleave(a, b), c) with an
		// order-sensitive c, on a fixed multi-row, multi-family, multi-column, multi-version table
		t := tname(parentA, "t1")
		lit := func(b byte) *Regex { return &Regex{Re: &Re{Kind: "lit", B: int(b)}} }
		anyStar := &Regex{Re: &Re{Kind: "star", A: &Re{Kind: "any"}}}
		cl := func(k string) *Bound { return &Bound{Kind: "closed", K: []byte(k)} }
		op := func(k string) *Bound { return &Bound{Kind: "open", K: []byte(k)} }
		un := &Bound{Kind: "unset"}
		basis := []*Filter{
			{Kind: "pass", Flag: true}, {Kind: "block", Flag: true},
			{Kind: "rowkey", Rx: &Regex{Re: &Re{Kind: "cat", A: &Re{Kind: "lit", B: 'r'}, C: &Re{Kind: "star", A: &Re{Kind: "any"}}}}},
			{Kind: "rowkey", Rx: lit('z')},
			{Kind: "famregex", Rx: &Regex{Re: &Re{Kind: "cat", A: &Re{Kind: "lit", B: 'c'}, C: &Re{Kind: "lit", B: 'f'}}}},
			{Kind: "qualregex", Rx: lit('a')}, {Kind: "qualregex", Rx: lit('b')}, {Kind: "qualregex", Rx: anyStar},
			{Kind: "valregex", Rx: &Regex{Re: &Re{Kind: "cat", A: &Re{Kind: "lit", B: 'v'}, C: &Re{Kind: "star", A: &Re{Kind: "any"}}}}}, {Kind: "valregex", Rx: anyStar},
			{Kind: "colrange", Fam: "cf", S: cl("a"), E: op("b")}, {Kind: "colrange", Fam: "cf", S: op("a"), E: un}, {Kind: "colrange", Fam: "cf2", S: un, E: cl("b")},
			{Kind: "valrange", S: cl("v1"), E: op("v3")}, {Kind: "valrange", S: un, E: cl("v2")},
			{Kind: "tsrange", TS: 2000, TE: 3000}, {Kind: "tsrange", TS: 0, TE: 2000}, {Kind: "tsrange", TS: 2000, TE: 0},
			{Kind: "rowlimit", N: 1}, {Kind: "rowlimit", N: 2}, {Kind: "rowoffset", N: 1}, {Kind: "collimit", N: 1},
			{Kind: "strip"}, {Kind: "label", Label: "lbl"},
		}
		boundary := []*Filter{
			{Kind: "pass", Flag: false}, {Kind: "block", Flag: false}, {Kind: "rowlimit", N: 0}, {Kind: "rowlimit", N: -1}, {Kind: "rowlimit", N: 100}, {Kind: "rowoffset", N: 0}, {Kind: "rowoffset", N: -1},
			{Kind: "rowoffset", N: 100}, {Kind: "collimit", N: 0}, {Kind: "collimit", N: -1}, {Kind: "collimit", N: 2}, {Kind: "tsrange", TS: 3000, TE: 2000}, {Kind: "tsrange", TS: 1500, TE: 0}, {Kind: "tsrange", TS: 0, TE: 0},
			{Kind: "colrange", Fam: "cf", S: cl("b"), E: cl("a")}, {Kind: "colrange", Fam: "cf", S: cl("a"), E: cl("a")}, {Kind: "colrange", Fam: "cf", S: op("a"), E: op("a")}, {Kind: "colrange", Fam: "nope", S: un, E: un},
			{Kind: "valrange", S: cl("v2"), E: cl("v2")}, {Kind: "valrange", S: op("v2"), E: op("v2")}, {Kind: "valrange", S: cl(""), E: cl("")}, {Kind: "valregex", Rx: &Regex{Bad: true}}, {Kind: "qualregex", Rx: lit('\n')},
			{Kind: "label", Label: ""}, {Kind: "label", Label: "UPPER"}, {Kind: "sample", Prob: 0}, {Kind: "sample", Prob: 1}, {Kind: "sample", Prob: 0.5},
			{Kind: "chain", Subs: []*Filter{{Kind: "pass", Flag: true}}}, {Kind: "interleave", Subs: nil},
		}
		var filters []*Filter
		filters = append(filters, basis...)
		filters = append(filters, boundary...)
		for _, a := range basis {
			for _, b := range basis {
				filters = append(filters, &Filter{Kind: "chain", Subs: []*Filter{a, b}}, &Filter{Kind: "interleave", Subs: []*Filter{a, b}})
			}
		}
		small := []*Filter{basis[0], basis[1], basis[5], basis[22], basis[18]}
		for _, pf := range basis {
			for _, tf := range small {
				for _, ff := range small {
					filters = append(filters, &Filter{Kind: "condition", P: pf, T: tf, F: ff})
				}
			}
			filters = append(filters, &Filter{Kind: "condition", P: pf, T: basis[0]}, &Filter{Kind: "condition", P: pf, F: basis[0]})
		}
		sel := []*Filter{basis[0], basis[5], basis[6], basis[7], basis[8], basis[10], basis[11], basis[13], basis[15], basis[22]}
		after := []*Filter{basis[18], basis[19], basis[20], basis[21], basis[22]}
		for _, a := range sel {
			for _, b := range sel {
				for _, c := range after {
					filters = append(filters, &Filter{Kind: "chain", Subs: []*Filter{{Kind: "interleave", Subs: []*Filter{a, b}}, c}})
				}
			}
		}
		cell := func(f, q string, ts int64, v string) Mutation {
			return Mutation{Kind: "set", Fam: f, Q: []byte(q), Ts: ts, V: []byte(v)}
		}
		setup := []Call{{Req: Req{Kind: "create", Parent: parentA, Tid: "t1", Fams: []FamDef{{Name: "cf"}, {Name: "cf2"}}}, Now: 1000},
			{Req: Req{Kind: "mutate", Table: t, Key: []byte("r1"), Muts: []Mutation{cell("cf", "a", 1000, "v1"), cell("cf", "a", 2000, "v2"), cell("cf", "a", 3000, "x3"), cell("cf", "b", 2000, "v2"), cell("cf2", "a", 2000, "v3"), cell("cf2", "\x00\xff", 1000, "")}}, Now: 1000},
			{Req: Req{Kind: "mutate", Table: t, Key: []byte("r2"), Muts: []Mutation{cell("cf", "b", 1000, "v1"), cell("cf", "b", 3000, "v9"), cell("cf", "c", 2000, "w")}}, Now: 1000},
			{Req: Req{Kind: "mutate", Table: t, Key: []byte("z"), Muts: []Mutation{cell("cf2", "b", 2000, "v2"), cell("cf2", "a", 2000, "line\nbreak")}}, Now: 1000}}
		var dtasks []Task
		const perProg = 120
		for _, en := range engines() {
			for i := 0; i < len(filters); i += perProg {
				prog := append([]Call{}, setup...)
				for j := i; j < i+perProg && j < len(filters); j++ {
					c := Call{Req: Req{Kind: "read", Table: t, Filter: filters[j]}, Now: 1000}
					if n := countSamples(filters[j]); n > 0 {
						for k := 0; k < 8*n; k++ {
							c.Coins = append(c.Coins, (k+j)%2 == 0)
						}
					}
					prog = append(prog, c)
				}
				dtasks = append(dtasks, Task{en, "compositions", prog})
			}
		}
		RunTasks(sink, dtasks, progNontrivial)
		exhaustive = true
	}
	if prop == "C13" {
		// directed: several rules in one request on columns whose (family, qualifier) pairs are easy to
		// confuse: the family name of one is a prefix of the other's ("cf"+"2q" vs "cf2"+"q"), the same
		// qualifier in two families, the empty qualifier, the same column twice
		t := tname(parentA, "t1")
		incr := func(f, q string, amt int64) Rule { return Rule{Kind: "incr", Fam: f, Q: []byte(q), Amt: amt} }
		app := func(f, q, v string) Rule { return Rule{Kind: "append", Fam: f, Q: []byte(q), V: []byte(v)} }
		setup := []Call{{Req: Req{Kind: "create", Parent: parentA, Tid: "t1", Fams: []FamDef{{Name: "cf"}, {Name: "cf2"}, {Name: "c"}}}, Now: 1000},
			{Req: Req{Kind: "mutate", Table: t, Key: []byte("r1"), Muts: []Mutation{{Kind: "set", Fam: "cf", Q: []byte("2q"), Ts: 1000, V: be64(1)}, {Kind: "set", Fam: "cf2", Q: []byte("q"), Ts: 1000, V: be64(40)}, {Kind: "set", Fam: "c", Q: []byte("f2q"), Ts: 1000, V: be64(700)}, {Kind: "set", Fam: "cf", Q: []byte(""), Ts: 1000, V: []byte("e")}}}, Now: 1000}}
		ruleSets := [][]Rule{
			{incr("cf", "2q", 2), incr("cf2", "q", 5)},
			{incr("cf2", "q", 5), incr("cf", "2q", 2), incr("c", "f2q", 1)},
			{app("cf", "", "+"), app("cf2", "", "x"), incr("cf", "2q", 1), app("cf", "", "!")},
			{incr("cf", "2q", 1), incr("cf", "2q", 1), incr("cf2", "q", -41)},
			{app("cf", "q", "new"), incr("cf2", "2q", 7), incr("cf", "2q", 9223372036854775807)},
			// rules that change no byte still write a new version at the server time: an empty append on an
			// existing older cell and on a missing one, an increment by zero
			{app("cf", "", ""), app("cf", "q", ""), incr("cf", "2q", 0)},
			{incr("cf2", "q", 0), app("cf", "", ""), app("cf", "", "")},
		}
		var dtasks []Task
		for _, en := range engines() {
			for _, rs := range ruleSets {
				prog := append(append([]Call{}, setup...), Call{Req: Req{Kind: "rmw", Table: t, Key: []byte("r1"), Rules: rs}, Now: 2000}, Call{Req: Req{Kind: "read", Table: t}, Now: 3000},
					Call{Req: Req{Kind: "rmw", Table: t, Key: []byte("r1"), Rules: rs}, Now: 2000}, Call{Req: Req{Kind: "read", Table: t}, Now: 3000})
				dtasks = append(dtasks, Task{en, "confusable-columns", prog})
			}
		}
		RunTasks(sink, dtasks, progNontrivial)
	}
	if prop == "C12" || prop == "C13" {
		// the request is one atomic step: every interleaving (at the yield points before the table lock
		// and between row fetch and write-back) of a CheckAndMutateRow (C12) / ReadModifyWriteRow (C13)
		// with a second write to the same row, compared step by step with the interleaving model
		own := 2
		if prop == "C13" {
			own = 3
		}
		final := []Call{{Req: Req{Kind: "read", Table: concTable}, Now: 9000000}}
		var jobs []concJob
		for _, en := range engines() {
			for _, other := range []int{0, 2, 3} {
				for _, pair := range [][2]int{{own, other}, {other, own}} {
					threads := [][]Call{{c06Request(pair[0], []byte("r1"), 1)}, {c06Request(pair[1], []byte("r1"), 2)}}
					for _, sch := range interleavings(c06Steps(pair[0]), c06Steps(pair[1])) {
						jobs = append(jobs, concJob{en, smallSetup(), threads, sch, final, nil, fmt.Sprintf("atomic-step-%d-%d", pair[0], pair[1])})
					}
				}
			}
		}
		results := make([]*ConcCase, len(jobs))
		parallelN(16, len(jobs), func(i int) {
			j := jobs[i]
			results[i] = runConc(j.en, j.setup, j.threads, j.sched, j.final, j.bulk, j.tag)
		})
		for _, c := range results {
			if c == nil {
				sink.stats.Skipped++
				continue
			}
			js, _ := json.Marshal(c)
			sink.AddPreV("conc", "check_conc", "ccase", c.pseudo(), c.coq(), js, true)
		}
	}
	if prop == "C14" || prop == "C17" {
		// directed: things that are removed and come back under the same name (a family dropped and
		// re-created, a table deleted and re-created, rows dropped and re-written) over several rows:
		// nothing of the old content may resurface on any engine
		t := tname(parentA, "t1")
		set := func(key, fam, q, v string) Call {
			return Call{Req: Req{Kind: "mutate", Table: t, Key: []byte(key), Muts: []Mutation{{Kind: "set", Fam: fam, Q: []byte(q), Ts: 1000, V: []byte(v)}}}, Now: 1000}
		}
		create := Call{Req: Req{Kind: "create", Parent: parentA, Tid: "t1", Fams: []FamDef{{Name: "cf"}, {Name: "cf2"}}}, Now: 1000}
		fill := []Call{create, set("r1", "cf", "q", "1"), set("r1", "cf2", "q", "2"), set("r2", "cf2", "only", "3"), set("r3", "cf2", "x", "4"), set("r3", "cf", "y", "5"), set("r4", "cf", "z", "6"), set("s1", "cf2", "w", "7")}
		rd := Call{Req: Req{Kind: "read", Table: t}, Now: 1000}
		get := Call{Req: Req{Kind: "get", Table: t}, Now: 1000}
		mod := func(mods ...FMod) Call { return Call{Req: Req{Kind: "modify", Table: t, Mods: mods}, Now: 1000} }
		tails := [][]Call{
			{mod(FMod{Kind: "drop", ID: "cf2"}), rd, mod(FMod{Kind: "create", ID: "cf2"}), rd, get, set("r2", "cf2", "new", "8"), rd},
			{mod(FMod{Kind: "drop", ID: "cf2"}, FMod{Kind: "create", ID: "cf2"}), rd, set("r9", "cf2", "new", "8"), rd},
			{mod(FMod{Kind: "drop", ID: "cf"}), mod(FMod{Kind: "drop", ID: "cf2"}), rd, mod(FMod{Kind: "create", ID: "cf"}), mod(FMod{Kind: "create", ID: "cf2"}), rd, set("r1", "cf", "q", "9"), rd},
			{{Req: Req{Kind: "delete", Table: t}, Now: 1000}, rd, create, rd, get, set("r2", "cf", "q", "9"), rd},
			{{Req: Req{Kind: "drop", Table: t, All: true}, Now: 1000}, rd, set("r2", "cf", "q", "9"), rd, mod(FMod{Kind: "drop", ID: "cf2"}), mod(FMod{Kind: "create", ID: "cf2"}), rd},
			{{Req: Req{Kind: "drop", Table: t, AllFalse: true}, Now: 1000}, rd, {Req: Req{Kind: "drop", Table: t}, Now: 1000}, rd, {Req: Req{Kind: "drop", Table: t, HasPfx: true, Prefix: []byte{}}, Now: 1000}, rd, get},
			{{Req: Req{Kind: "drop", Table: t, HasPfx: true, Prefix: []byte("r")}, Now: 1000}, rd, set("r2", "cf2", "q", "9"), rd, {Req: Req{Kind: "drop", Table: t, HasPfx: true, Prefix: []byte("s")}, Now: 1000}, rd},
			{{Req: Req{Kind: "mutate", Table: t, Key: []byte("r3"), Muts: []Mutation{{Kind: "delfam", Fam: "cf2"}}}, Now: 1000}, {Req: Req{Kind: "mutate", Table: t, Key: []byte("r2"), Muts: []Mutation{{Kind: "delrow"}}}, Now: 1000}, rd, set("r2", "cf2", "only", "9"), set("r3", "cf2", "z", "9"), rd},
		}
		var dtasks []Task
		for _, en := range engines() {
			for _, tail := range tails {
				prog := append(append([]Call{}, fill...), tail...)
				dtasks = append(dtasks, Task{en, "removed-and-recreated", prog})
			}
		}
		// directed: a family added later and written ONLY through ReadModifyWriteRow (or only through the
		// mutations of a CheckAndMutateRow) is dropped like any other: its cells are gone, and stay gone
		// when a family of that name is created again
		{
			rmw := func(key string, rules ...Rule) Call {
				return Call{Req: Req{Kind: "rmw", Table: t, Key: []byte(key), Rules: rules}, Now: 5000}
			}
			cam := Call{Req: Req{Kind: "cam", Table: t, Key: []byte("r2"), TM: []Mutation{{Kind: "set", Fam: "late", Q: []byte("c"), Ts: 1000, V: []byte("cam")}}, FM: []Mutation{{Kind: "set", Fam: "late", Q: []byte("c"), Ts: 1000, V: []byte("cam-f")}}}, Now: 5000}
			for _, en := range engines() {
				for _, writes := range [][]Call{
					{rmw("r1", Rule{Kind: "incr", Fam: "late", Q: []byte("n"), Amt: 7}), rmw("r3", Rule{Kind: "append", Fam: "late", Q: []byte("s"), V: []byte("tail")})},
					{rmw("r1", Rule{Kind: "incr", Fam: "late", Q: []byte("n"), Amt: 7})},
					{cam},
					{rmw("r3", Rule{Kind: "append", Fam: "late", Q: []byte("s"), V: []byte("tail")}), cam},
				} {
					prog := append(append([]Call{}, fill...), mod(FMod{Kind: "create", ID: "late"}))
					prog = append(prog, writes...)
					prog = append(prog, rd, mod(FMod{Kind: "drop", ID: "late"}), rd, mod(FMod{Kind: "create", ID: "late"}), rd,
						rmw("r1", Rule{Kind: "incr", Fam: "late", Q: []byte("n"), Amt: 1}), rmw("r3", Rule{Kind: "append", Fam: "late", Q: []byte("s"), V: []byte("new")}), rd, get)
					dtasks = append(dtasks, Task{en, "family-written-by-rmw-only", prog})
				}
			}
		}
		// directed: tables of several hundred rows (storage engines delete in batches): drop all, drop by a
		// prefix that matches all / most rows, then write and read again
		{
			var entries []Entry
			for i := 0; i < 600; i++ {
				entries = append(entries, Entry{Key: []byte(fmt.Sprintf("row-%04d", i)), Muts: []Mutation{{Kind: "set", Fam: "cf", Q: []byte("q"), Ts: 1000, V: []byte{byte('a' + i%26)}}}})
			}
			load := Call{Req: Req{Kind: "mutaterows", Table: t, Entries: entries}, Now: 1000}
			for _, en := range engines() {
				for _, drop := range []Req{{Kind: "drop", Table: t, All: true}, {Kind: "drop", Table: t, HasPfx: true, Prefix: []byte("row-")}, {Kind: "drop", Table: t, HasPfx: true, Prefix: []byte("row-0")}, {Kind: "drop", Table: t, HasPfx: true, Prefix: []byte("row-02")}} {
					prog := []Call{create, load, {Req: drop, Now: 1000}, rd, set("row-0300", "cf", "q", "again"), rd, {Req: Req{Kind: "drop", Table: t, All: true}, Now: 1000}, rd}
					dtasks = append(dtasks, Task{en, "many-rows", prog})
				}
			}
			// and a table beyond the next common batch sizes (1000, 1024, 2048): delete all, delete by the
			// prefix every key has; one row of a batch boundary left behind is one row too many
			var big []Entry
			for i := 0; i < 2100; i++ {
				big = append(big, Entry{Key: []byte(fmt.Sprintf("row-%04d", i)), Muts: []Mutation{{Kind: "set", Fam: "cf", Q: []byte("q"), Ts: 1000, V: []byte{byte('a' + i%26)}}}})
			}
			loadBig := Call{Req: Req{Kind: "mutaterows", Table: t, Entries: big}, Now: 1000}
			for _, en := range engines() {
				for _, drop := range []Req{{Kind: "drop", Table: t, All: true}, {Kind: "drop", Table: t, HasPfx: true, Prefix: []byte("row-")}} {
					prog := []Call{create, loadBig, {Req: drop, Now: 1000}, rd, set("row-0300", "cf", "q", "again"), rd, {Req: Req{Kind: "drop", Table: t, All: true}, Now: 1000}, rd}
					dtasks = append(dtasks, Task{en, "many-rows-2100", prog})
				}
			}
		}
		if prop == "C14" {
			// directed: DropRowRange by a prefix at the byte boundaries (ending in 0xff, all 0xff, equal to a
			// whole key, followed by 0x00) on a table holding the keys around each of them: exactly the keys
			// with the prefix go, in particular not the prefix's carried successor ("a\xff" vs "b")
			keys := []string{"a", "a\x00", "a\xfe", "a\xff", "a\xff\x00", "a\xff\xff", "a\xffz", "b", "b\x00", "b\x00\x00", "c", "\xfe", "\xff", "\xff\x00", "\xff\xff", "\xff\xff\xff"}
			rows := []Call{create}
			for i, k := range keys {
				rows = append(rows, set(k, "cf", "q", fmt.Sprint(i)))
			}
			for _, en := range engines() {
				for _, pfx := range []string{"a\xff", "a\xff\xff", "\xff", "\xff\xff", "a", "b", "b\x00", "a\xfe", "\xfe", "c", "zz"} {
					prog := append(append([]Call{}, rows...), Call{Req: Req{Kind: "drop", Table: t, HasPfx: true, Prefix: []byte(pfx)}, Now: 1000}, rd, get)
					dtasks = append(dtasks, Task{en, "drop-prefix-boundaries", prog})
				}
			}
		}
		RunTasks(sink, dtasks, progNontrivial)
	}
	if prop == "C03" || prop == "C17" {
		// result sets that span several response messages: rows of 300 cells, limits around the flush
		t := tname(parentA, "t1")
		setup := []Call{{Req: Req{Kind: "create", Parent: parentA, Tid: "t1", Fams: []FamDef{{Name: "cf"}}}, Now: 1000}}
		var bulk []BulkRow
		for i := 0; i < 9; i++ {
			b := BulkRow{Key: scanKey(i), Fam: "cf", NQ: 3, NV: 100, Base: 1000000, V: []byte{byte('a' + i)}}
			bulk = append(bulk, b)
			setup = append(setup, Call{Req: Req{Kind: "mutate", Table: t, Key: b.Key, Muts: b.muts()}, Now: 1000})
		}
		var reads []Call
		for _, lim := range []int64{0, 1, 3, 4, 5, 6, 8, 9, 10} {
			reads = append(reads, Call{Req: Req{Kind: "read", Table: t, Limit: lim}, Now: 1},
				Call{Req: Req{Kind: "read", Table: t, Limit: lim, Keys: [][]byte{scanKey(8)}, Ranges: []RowRange{{S: Bound{Kind: "open", K: scanKey(0)}, E: Bound{Kind: "closed", K: scanKey(6)}}}}, Now: 1})
		}
		var mjobs []concJob
		for _, en := range engines() {
			mjobs = append(mjobs, concJob{en, setup, nil, nil, reads, bulk, "multi-message"})
		}
		results := make([]*ConcCase, len(mjobs))
		parallelN(3, len(mjobs), func(i int) {
			j := mjobs[i]
			results[i] = runConc(j.en, j.setup, j.threads, j.sched, j.final, j.bulk, j.tag)
		})
		for _, c := range results {
			if c == nil || len(c.FinalR) != len(c.Final) {
				sink.stats.Skipped++
				continue
			}
			js, _ := json.Marshal(c)
			pc := Case{Store: c.Store, Tag: c.Tag}
			for i, f := range c.Final {
				pc.Prog = append(pc.Prog, f)
				pc.Obs = append(pc.Obs, c.FinalR[i])
			}
			sink.AddPreV("multi", "check_conc", "ccase", pc, c.coq(), js, true)
		}
	}
	if prop == "C03" || prop == "C17" {
		// the complete RowSet space over the adversarial key universe (variant enum)
		genEnum(sink, tier)
		exhaustive = true
	}
	sink.perFile = 40
	sink.Close(fmt.Sprintf("(C05 additionally, EXHAUSTIVELY: every leaf of a 24-leaf basis and 31 boundary-argument leaves alone, every chain and interleave of two basis leaves (2 x 576), conditions over predicate x true x false branches (24 x 27), and chain(interleave(a, b), c) for 10 x 10 selectors and 5 order-sensitive leaves, as reads of a fixed 3-row table on all three engines; C12/C13 additionally: every interleaving, at the yield points before the table lock and between row fetch and write-back, of a CheckAndMutateRow resp. ReadModifyWriteRow with a second write to the same row, compared step by step with the interleaving model; C13: several rules on confusable columns; C14/C17: things removed and brought back under the same name; C03/C17 additionally: the COMPLETE space of RowSets with at most two ranges plus at most one key, bounds from the 7-key adversarial universe, each bound unset/closed/open, limits {0,2} (thorough {0,1,2,3,7,8}), on a table holding all 7 keys, on all three engines: 50851 range sets x 8 keys x limits per engine, reported as blocks of 1600 range sets) random request programs (focus %s) of about %d requests over %d row keys (byte-prefixes of each other, 0x00/0xff), 3 families + 1 unknown, %d qualifiers incl. empty, boundary timestamps, %d clock values incl. non-millisecond and huge; MutateRow/MutateRows/CheckAndMutateRow/ReadModifyWriteRow/ReadRows with RowSets, filters to depth 3, limits/admin requests/forced GC passes, a full-table read after most writes; every program runs on the btree, in-memory leveldb and on-disk leveldb engines; distinct = distinct canonical (program, observation) text (identical observations on several engines count once); non-trivial = at least one successful write and one non-empty read", prop, length, len(keyUniverse), len(qualifiers), len(clocks)), exhaustive)
}

// c16RulePrograms: a family's rule is changed, cleared and restored between writes and forced passes
func c16RulePrograms() [][]Call {
	t := tname(parentA, "t1")
	mv := func(n int) *GcRule { return &GcRule{Kind: "maxversions", N: int64(n)} }
	w := func(ts int64, v string) Call {
		return Call{Req: Req{Kind: "mutate", Table: t, Key: []byte("r1"), Muts: []Mutation{{Kind: "set", Fam: "cf", Q: []byte("q"), Ts: ts, V: []byte(v)}, {Kind: "set", Fam: "cf2", Q: []byte("q"), Ts: ts, V: []byte(v)}}}, Now: 5000}
	}
	gc := Call{Req: Req{Kind: "gc", Table: t}, Now: 9000000}
	rd := Call{Req: Req{Kind: "read", Table: t}, Now: 9000000}
	upd := func(rule *GcRule) Call {
		return Call{Req: Req{Kind: "modify", Table: t, Mods: []FMod{{Kind: "update", ID: "cf", Rule: rule}}}, Now: 1000}
	}
	create := Call{Req: Req{Kind: "create", Parent: parentA, Tid: "t1", Fams: []FamDef{{Name: "cf", Rule: mv(1)}, {Name: "cf2", Rule: mv(2)}}}, Now: 1000}
	progs := [][]Call{
		{create, w(1000, "a"), w(2000, "b"), w(3000, "c"), upd(nil), gc, rd, {Req: Req{Kind: "get", Table: t}, Now: 1}},
		{create, upd(nil), w(1000, "a"), w(2000, "b"), w(3000, "c"), gc, rd, upd(mv(2)), gc, rd, upd(nil), w(4000, "d"), w(5000, "e"), gc, rd},
		{create, w(1000, "a"), w(2000, "b"), upd(mv(3)), w(3000, "c"), gc, rd, upd(mv(1)), gc, rd},
		{create, w(1000, "a"), w(2000, "b"), {Req: Req{Kind: "modify", Table: t, Mods: []FMod{{Kind: "drop", ID: "cf"}, {Kind: "create", ID: "cf"}}}, Now: 1000}, w(3000, "c"), w(4000, "d"), gc, rd},
		{create, w(1000, "a"), w(2000, "b"), {Req: Req{Kind: "modify", Table: t, Mods: []FMod{{Kind: "update", ID: "cf2"}}}, Now: 1000}, w(3000, "c"), gc, rd},
	}
	// unions: cells condemned by ANY member go; two max-age members with different ages, cells between the
	// two ages; a max-age next to a max-versions; nested unions
	hour := int64(3600)
	age := func(h int64) GcRule { return GcRule{Kind: "maxage", Secs: h * hour} }
	un := func(rs ...GcRule) *GcRule { return &GcRule{Kind: "union", Rules: rs} }
	nowUs := int64(100) * hour * 1000000
	at := func(hAgo int64, v string) Call {
		return Call{Req: Req{Kind: "mutate", Table: t, Key: []byte("r1"), Muts: []Mutation{{Kind: "set", Fam: "cf", Q: []byte("q"), Ts: nowUs - hAgo*hour*1000000, V: []byte(v)}}}, Now: 5000}
	}
	gcNow := Call{Req: Req{Kind: "gc", Table: t}, Now: nowUs}
	for _, rule := range []*GcRule{un(age(2), age(6)), un(age(6), age(2)), un(GcRule{Kind: "maxversions", N: 4}, age(6), age(2)), un(*un(GcRule{Kind: "maxversions", N: 4}, age(6)), age(2)), un(age(6), GcRule{Kind: "maxversions", N: 1}), un(age(2))} {
		progs = append(progs, []Call{{Req: Req{Kind: "create", Parent: parentA, Tid: "t1", Fams: []FamDef{{Name: "cf", Rule: rule}, {Name: "cf2"}}}, Now: 1000},
			at(1, "1h"), at(3, "3h"), at(5, "5h"), at(7, "7h"), at(2, "2h-edge"), at(6, "6h-edge"), gcNow, rd})
	}
	return progs
}

// longFieldProgram: see the directed block "long-fields"
func longFieldProgram() []Call {
	t := tname(parentA, "t1")
	rep := func(c byte, n int) []byte { return bytes.Repeat([]byte{c}, n) }
	prog := []Call{{Req: Req{Kind: "create", Parent: parentA, Tid: "t1", Fams: []FamDef{{Name: "cf"}, {Name: "cf2"}}}, Now: 1000}}
	rd := Call{Req: Req{Kind: "read", Table: t}, Now: 1000}
	var keys [][]byte
	for i, n := range []int{127, 128, 129, 300} {
		k := append([]byte{byte('k' + i)}, rep('x', n-1)...)
		keys = append(keys, k)
		var ms []Mutation
		for j, qn := range []int{0, 127, 128, 300} {
			ms = append(ms, Mutation{Kind: "set", Fam: "cf", Q: rep(byte('a'+j), qn), Ts: 1000, V: rep(byte('0'+i), []int{127, 128, 129, 16383}[j])})
		}
		ms = append(ms, Mutation{Kind: "set", Fam: "cf2", Q: []byte("big"), Ts: 2000, V: rep('B', []int{16384, 20000, 255, 256}[i])})
		prog = append(prog, Call{Req: Req{Kind: "mutate", Table: t, Key: k, Muts: ms}, Now: 1000})
	}
	prog = append(prog, rd)
	for _, k := range keys {
		prog = append(prog, Call{Req: Req{Kind: "read", Table: t, Keys: [][]byte{k}}, Now: 1000})
	}
	prog = append(prog,
		Call{Req: Req{Kind: "mutate", Table: t, Key: keys[1], Muts: []Mutation{{Kind: "delcol", Fam: "cf", Q: rep('c', 128)}}}, Now: 1000},
		Call{Req: Req{Kind: "mutate", Table: t, Key: keys[2], Muts: []Mutation{{Kind: "delfam", Fam: "cf2"}}}, Now: 1000},
		Call{Req: Req{Kind: "mutate", Table: t, Key: keys[3], Muts: []Mutation{{Kind: "delrow"}}}, Now: 1000},
		Call{Req: Req{Kind: "rmw", Table: t, Key: keys[0], Rules: []Rule{{Kind: "append", Fam: "cf", Q: rep('b', 127), V: rep('+', 200)}}}, Now: 3000},
		rd,
		Call{Req: Req{Kind: "drop", Table: t, HasPfx: true, Prefix: keys[1]}, Now: 1000}, rd,
		Call{Req: Req{Kind: "sample", Table: t}, Now: 1000})
	return prog
}

// c16Quiescence: see the block "the background loop's pass" in genPrograms
func c16Quiescence(en Engine) Case {
	t := tname(parentA, "t1")
	rd := Call{Req: Req{Kind: "read", Table: t}, Now: 9000}
	pc := Case{Store: en.name, Tag: "quiescence"}
	for _, sc := range []struct {
		name              string
		readAgo, writeAgo time.Duration
		collects          bool
	}{
		{"read and written 10 minutes ago", 10 * time.Minute, 10 * time.Minute, true},
		{"written 10 minutes ago, read 1 minute ago", time.Minute, 10 * time.Minute, false},
		{"read 10 minutes ago, written 1 minute ago", 10 * time.Minute, time.Minute, false},
		{"read and written 4 minutes 50 seconds ago", 290 * time.Second, 290 * time.Second, false},
		{"not written since the last pass", 10 * time.Minute, -1, false},
	} {
		st, cleanup := en.mk()
		e := NewEmu(st)
		e.ExecFast(Call{Req: Req{Kind: "create", Parent: parentA, Tid: "t1", Fams: []FamDef{{Name: "cf", Rule: &GcRule{Kind: "maxversions", N: 1}}, {Name: "cf2"}}}, Now: 1000})
		for i, ts := range []int64{1000, 2000, 3000} {
			e.ExecFast(Call{Req: Req{Kind: "mutate", Table: t, Key: []byte("r1"), Muts: []Mutation{{Kind: "set", Fam: "cf", Q: []byte("q"), Ts: ts, V: []byte{byte('a' + i)}}, {Kind: "set", Fam: "cf2", Q: []byte("q"), Ts: ts, V: []byte{byte('a' + i)}}}}, Now: 5000})
		}
		var notes []string
		if !e.v.BackdateUse(t, sc.readAgo, sc.writeAgo) || !e.v.RunGCUnforced(t) {
			notes = append(notes, "quiescence: the table is unknown to the hooks")
		}
		o := e.ExecFast(rd)
		cells := 0
		for _, r := range o.Rows {
			for _, f := range r.Fams {
				if f.Name == "cf" {
					for _, c := range f.Cols {
						cells += len(c.Cells)
					}
				}
			}
		}
		if sc.collects && cells != 1 {
			notes = append(notes, fmt.Sprintf("quiescence (%s): the unforced pass left %d cells in a max-versions-1 column holding 3", sc.name, cells))
		}
		if !sc.collects && cells != 3 {
			notes = append(notes, fmt.Sprintf("quiescence (%s): the unforced pass ran on a table in use (or clean): %d of 3 cells left", sc.name, cells))
		}
		o.Notes = append(o.Notes, notes...)
		pc.Prog = append(pc.Prog, rd)
		pc.Obs = append(pc.Obs, o)
		closeEmu(e)
		cleanup()
	}
	return pc
}

package main

import (
	"encoding/hex"
	"fmt"
	"regexp"
	"strconv"
	"sort"
	"strings"
)

// Printers from harness values to Gallina literals.

// Numerals are slow to elaborate in Coq (each goes through the Number Notation interpreter),
// so literals are written as tokens and interned per file by internLiterals: every distinct
// byte string / number becomes one named Definition, referenced by identifier afterwards.
func cBytes(b []byte) string {
	if len(b) == 0 {
		return "E"
	}
	return "\x01b" + hex.EncodeToString(b) + "\x02"
}
func cStr(s string) string { return cBytes([]byte(s)) }
func cZ(z int64) string    { return fmt.Sprintf("\x01z%d\x02", z) }
func cN(n int) string      { return fmt.Sprintf("\x01n%d\x02", n) }

var litRe = regexp.MustCompile("\x01([bzn])(-?[0-9a-f]*)\x02")

// internLiterals replaces the tokens by identifiers and returns the definitions to put first.
func internLiterals(text string) (defs string, out string) {
	names := map[string]string{}
	var sb strings.Builder
	usedBytes := map[string]bool{}
	out = litRe.ReplaceAllStringFunc(text, func(tok string) string {
		if n, ok := names[tok]; ok {
			return n
		}
		m := litRe.FindStringSubmatch(tok)
		name := fmt.Sprintf("l%d_", len(names))
		names[tok] = name
		switch m[1] {
		case "b":
			var items []string
			for i := 0; i+1 < len(m[2]); i += 2 {
				items = append(items, "x"+m[2][i:i+2])
				usedBytes[m[2][i:i+2]] = true
			}
			fmt.Fprintf(&sb, "Definition %s : bytes := [%s].\n", name, strings.Join(items, ";"))
		case "z":
			if strings.HasPrefix(m[2], "-") {
				fmt.Fprintf(&sb, "Definition %s : Z := (%s)%%Z.\n", name, m[2])
			} else {
				fmt.Fprintf(&sb, "Definition %s : Z := %s%%Z.\n", name, m[2])
			}
		case "n":
			fmt.Fprintf(&sb, "Definition %s : N := %s%%N.\n", name, m[2])
		}
		return name
	})
	var bd strings.Builder
	for h := range usedBytes {
		v, _ := strconv.ParseUint(h, 16, 8)
		fmt.Fprintf(&bd, "Definition x%s : N := %d%%N.\n", h, v)
	}
	return bd.String() + sb.String(), out
}
func cBool(b bool) string {
	if b {
		return "true"
	}
	return "false"
}
func cOptStr(s *string) string {
	if s == nil {
		return "None"
	}
	return "(Some " + cStr(*s) + ")"
}
func cList(items []string) string {
	if len(items) == 0 {
		return "[]"
	}
	return "[" + strings.Join(items, "; ") + "]"
}
func cKV(m map[string]string) string {
	keys := make([]string, 0, len(m))
	for k := range m {
		keys = append(keys, k)
	}
	sort.Strings(keys)
	var items []string
	for _, k := range keys {
		items = append(items, "("+cStr(k)+", "+cStr(m[k])+")")
	}
	return cList(items)
}
// ordered key/value list (request side: order of application matters)
func cKVList(kv [][2]string) string {
	var items []string
	for _, e := range kv {
		items = append(items, "("+cStr(e[0])+", "+cStr(e[1])+")")
	}
	return cList(items)
}

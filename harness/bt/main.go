package main

import (
	"encoding/json"
	"flag"
	"fmt"
	"io"
	"log"
	"math/rand"
	"os"
	"path/filepath"
	"runtime"
	"sync"
	"sync/atomic"
	"time"

	"github.com/fullstorydev/emulators/bigtable/bttest"
)

type Case struct {
	Store string `json:"store"`
	Tag   string `json:"tag,omitempty"`
	Prog  []Call `json:"prog"`
	Obs   []Resp `json:"obs"`
}

func (c Case) coq() string {
	var ps, os_ []string
	for _, r := range c.Prog {
		ps = append(ps, r.coq())
	}
	for _, r := range c.Obs {
		os_ = append(os_, r.coq())
	}
	return "(" + cList(ps) + ",\n   " + cList(os_) + ")"
}

const btPrelude = `From Coq Require Import List NArith ZArith.
Import ListNotations.
From Emu.Common Require Import Bytes Str.
From Emu.BT Require Import Types Server Check EnumC03 Conc Bulk ConcCheck.
`

var tmpRoot string

func engines() []Engine {
	return []Engine{
		{"btree", func() (bttest.Storage, func()) { return bttest.BtreeStorage{}, func() {} }},
		{"leveldb-mem", func() (bttest.Storage, func()) { return bttest.LeveldbMemStorage{}, func() {} }},
		{"leveldb-disk", func() (bttest.Storage, func()) {
			d, err := os.MkdirTemp(tmpRoot, "ldb")
			if err != nil {
				panic(err)
			}
			return bttest.LeveldbDiskStorage{Root: d, ErrLog: func(err error, msg string) {}}, func() { _ = os.RemoveAll(d) }
		}},
	}
}

func runProg(en Engine, prog []Call) []Resp {
	st, cleanup := en.mk()
	defer cleanup()
	e := NewEmu(st)
	defer closeEmu(e)
	obs := make([]Resp, 0, len(prog))
	for i := range prog {
		obs = append(obs, e.Exec(prog[i]))
	}
	return obs
}

type Task struct {
	Engine Engine
	Tag    string
	Prog   []Call
}

func RunTasks(sink *Sink, tasks []Task, nt func(Case) bool) {
	type res struct {
		c    Case
		text string
		js   []byte
	}
	out := make([]res, len(tasks))
	var wg sync.WaitGroup
	next := int64(-1)
	for w := 0; w < runtime.NumCPU(); w++ {
		wg.Add(1)
		go func() {
			defer wg.Done()
			for {
				i := int(atomic.AddInt64(&next, 1))
				if i >= len(tasks) {
					return
				}
				o := runProg(tasks[i].Engine, tasks[i].Prog)
				c := Case{Store: tasks[i].Engine.name, Tag: tasks[i].Tag, Prog: tasks[i].Prog, Obs: o}
				js, _ := json.Marshal(c)
				out[i] = res{c, c.coq(), js}
			}
		}()
	}
	wg.Wait()
	for i := range tasks {
		sink.AddPre(out[i].c, out[i].text, out[i].js, nt(out[i].c))
	}
}

func main() {
	prop := flag.String("prop", "", "property id")
	tier := flag.String("tier", "quick", "quick|thorough")
	seed := flag.Int64("seed", 1, "PRNG seed")
	out := flag.String("out", "", "output directory")
	replay := flag.String("replay", "", "replay file (a JSON case)")
	slice := flag.String("slice", "", "enumworker: i/n")
	flag.Parse()
	if *out == "" {
		fmt.Fprintln(os.Stderr, "missing -out")
		os.Exit(2)
	}
	if *prop == "race" {
		log.SetOutput(io.Discard)
		secs := 6
		fmt.Sscanf(*tier, "%d", &secs)
		raceMain(secs, *slice)
		return
	}
	if *prop == "enumworker" {
		log.SetOutput(io.Discard)
		tmpRoot = os.TempDir()
		if st, err := os.Stat("/dev/shm"); err == nil && st.IsDir() {
			tmpRoot, _ = os.MkdirTemp("/dev/shm", "verifbtw")
		}
		defer os.RemoveAll(tmpRoot)
		enumWorker(*tier, *slice, *out)
		return
	}
	tmpRoot = filepath.Join(*out, "tmp")
	if st, err := os.Stat("/dev/shm"); err == nil && st.IsDir() {
		tmpRoot, _ = os.MkdirTemp("/dev/shm", "verifbt")
	}
	_ = os.MkdirAll(tmpRoot, 0o777)
	defer os.RemoveAll(tmpRoot)
	log.SetOutput(io.Discard)
	rng := rand.New(rand.NewSource(*seed))
	if *replay != "" {
		doReplay(*replay, *out)
		return
	}
	switch *prop {
	case "C06":
		genC06(*out, *tier, rng)
	case "bench":
		st, cleanup := engines()[1].mk()
		e := NewEmu(st)
		e.Exec(Call{Req: Req{Kind: "create", Parent: parentA, Tid: "t", Fams: []FamDef{{Name: "f"}}}, Now: 1000})
		for _, k := range enumUniverse {
			e.Exec(Call{Req: Req{Kind: "mutate", Table: tname(parentA, "t"), Key: k, Muts: []Mutation{{Kind: "set", Fam: "f", Q: []byte("q"), Ts: 1000, V: k}}}, Now: 1000})
		}
		t0 := time.Now()
		runEnumBlock(e, tname(parentA, "t"), 300, 200, []int64{0, 2}, "x")
		fmt.Println("3200 requests:", time.Since(t0))
		cleanup()
		for _, w := range []int{1, 4, 16} {
			t1 := time.Now()
			parallelN(w, 16, func(i int) {
				st, cleanup := engines()[1].mk()
				defer cleanup()
				e := NewEmu(st)
				e.Exec(Call{Req: Req{Kind: "create", Parent: parentA, Tid: "t", Fams: []FamDef{{Name: "f"}}}, Now: 1000})
				for _, k := range enumUniverse {
					e.Exec(Call{Req: Req{Kind: "mutate", Table: tname(parentA, "t"), Key: k, Muts: []Mutation{{Kind: "set", Fam: "f", Q: []byte("q"), Ts: 1000, V: k}}}, Now: 1000})
				}
				runEnumBlock(e, tname(parentA, "t"), 300, 200, []int64{0, 2}, "x")
			})
			fmt.Println(w, "workers, 16 blocks of 3200:", time.Since(t1))
		}
		return
	case "C08":
		genC08(*out, *tier, rng)
	case "C20":
		genC20(*out, *tier, rng)
	case "C18":
		genC18(*out, *tier, rng)
	case "C16":
		genC16(*out, *tier, rng)
	case "C01", "C12", "C13", "C14", "C05", "C17", "C03":
		genPrograms(*prop, *out, *tier, rng)
	default:
		fmt.Fprintln(os.Stderr, "unknown property", *prop)
		os.Exit(2)
	}
}

func doReplay(path, out string) {
	b, err := os.ReadFile(path)
	if err != nil {
		panic(err)
	}
	var probe struct {
		Case struct {
			Threads [][]Call  `json:"threads"`
			Segs    []DiskSeg `json:"segs"`
		} `json:"case"`
	}
	_ = json.Unmarshal(b, &probe)
	switch {
	case probe.Case.Threads != nil:
		// a scheduled execution: same engine, setup, threads and schedule (the recorded schedule
		// includes the drain steps)
		var rp struct {
			Case ConcCase `json:"case"`
		}
		if err := json.Unmarshal(b, &rp); err != nil {
			panic(err)
		}
		c := rp.Case
		sink := NewSink(out, concPrelude, "ccase", "check_conc", 10)
		for _, en := range engines() {
			if en.name != c.Store {
				continue
			}
			r := runConc(en, c.Setup, c.Threads, c.Sched, c.Final, c.Bulk, c.Tag)
			js, _ := json.Marshal(r)
			sink.AddPre(r.pseudo(), r.coq(), js, true)
		}
		sink.Close("replay of one recorded scheduled case", false)
		return
	case probe.Case.Segs != nil:
		var rp struct {
			Case DiskCase `json:"case"`
		}
		if err := json.Unmarshal(b, &rp); err != nil {
			panic(err)
		}
		var segs []SegPlan
		for _, sg := range rp.Case.Segs {
			segs = append(segs, SegPlan{Prog: sg.Prog, Crash: sg.Crash})
		}
		sink := NewSink(out, diskPrelude, "dcase", "check_disk", 3)
		sink.oracle = "oracle_disk"
		r := runDiskCase(segs, rp.Case.Tag)
		js, _ := json.Marshal(r)
		sink.AddPre(r.pseudo(), r.coq(), js, true)
		sink.Close("replay of one recorded crash/restart case", false)
		return
	}
	var rp struct {
		Case Case `json:"case"`
	}
	if err := json.Unmarshal(b, &rp); err != nil {
		panic(err)
	}
	sink := NewSink(out, btPrelude, "(list call * list bresp)", "check_all", 100)
	var tasks []Task
	for _, en := range engines() {
		if rp.Case.Store != "" && rp.Case.Store != en.name {
			continue
		}
		tasks = append(tasks, Task{en, "replay", rp.Case.Prog})
	}
	RunTasks(sink, tasks, func(Case) bool { return true })
	sink.Close("replay of one recorded case", false)
}

package main

import (
	"crypto/sha256"
	"encoding/hex"
	"encoding/json"
	"fmt"
	"os"
	"path/filepath"
	"runtime"
	"strings"
	"sync"
	"sync/atomic"
)

type Stats struct {
	Evaluations  int            `json:"evaluations"`
	Requests     int            `json:"requests"`
	Distinct     int            `json:"distinct"`
	Nontrivial   int            `json:"distinct_nontrivial"`
	ByKind       map[string]int `json:"by_kind"`
	ByStatus     map[string]int `json:"by_status"`
	ByStore      map[string]int `json:"by_store"`
	ByTag        map[string]int `json:"by_tag"`
	Notes        []string       `json:"notes"`        // Layer-B side conditions that failed (harness-side)
	NoteCases    []int          `json:"note_cases"`   // indices (into cases.jsonl) of cases with notes
	Panics       []int          `json:"panic_cases"`  // indices of cases in which the emulator panicked
	Samples      []Case         `json:"samples"`
	Files        []string       `json:"files"`
	Skipped      int            `json:"skipped"`      // cases not executed because the implementation kept wedging
	Exhaustive   bool           `json:"exhaustive"`
	Rule         string         `json:"rule"`
	GenCollision int            `json:"generation_collisions"`
}

type variantBuf struct {
	checker  string
	caseType string
	cur     []string
	curIdx  []int
}

type Sink struct {
	dir      string
	prelude  string
	checker  string // Coq function applied to the case list
	oracle   string // optional Layer-B oracle applied to the case list
	fsVariant bool  // evaluate file-store cases with the file-store model (check_all_fs)
	caseType string
	perFile  int
	cur      []string
	curIdx   []int
	curV     map[string]*variantBuf // additional shard streams (e.g. "fs": file-store model)
	fileNo   int
	jsonl    *os.File
	seen     map[string]int // canonical text -> first index
	n        int
	stats    *Stats
	index    [][]int // per file: global case index of each entry
}

func NewSink(dir, prelude, caseType, checker string, perFile int) *Sink {
	_ = os.MkdirAll(dir, 0o777)
	f, err := os.Create(filepath.Join(dir, "cases.jsonl"))
	if err != nil {
		panic(err)
	}
	return &Sink{dir: dir, prelude: prelude, caseType: caseType, checker: checker, perFile: perFile, jsonl: f, seen: map[string]int{},
		stats: &Stats{ByKind: map[string]int{}, ByStatus: map[string]int{}, ByStore: map[string]int{}, ByTag: map[string]int{}}}
}

// Add records a case.  nontrivial is the property-specific rule.  Cases whose canonical text
// was already emitted (e.g. the same program giving identical observations on the other store)
// are counted but not written to a .v file again.
// AddPreV: like AddPre, but the case is evaluated with the checker of the named variant
// (its own shard files); identical texts are only deduplicated within one variant.
func (s *Sink) AddPreV(variant, checker, caseType string, c Case, text string, b []byte, nontrivial bool) {
	if variant == "" {
		s.AddPre(c, text, b, nontrivial)
		return
	}
	if s.curV == nil {
		s.curV = map[string]*variantBuf{}
	}
	vb := s.curV[variant]
	if vb == nil {
		vb = &variantBuf{checker: checker, caseType: caseType}
		s.curV[variant] = vb
	}
	s.addCommon(c, b, variant+"\x00"+text, text, nontrivial, vb)
}

// AddOracleOnly records a case that has no Layer A model (judged by the harness-side oracle only).
func (s *Sink) AddOracleOnly(c Case, key string, b []byte, nontrivial bool) {
	s.addCommon(c, b, "oracle-only\x00"+key, "", nontrivial, &variantBuf{checker: ""})
}

func (s *Sink) AddPre(c Case, text string, b []byte, nontrivial bool) {
	s.addCommon(c, b, text, text, nontrivial, nil)
}

func (s *Sink) addCommon(c Case, b []byte, keytext, text string, nontrivial bool, vb *variantBuf) {
	idx := s.n
	s.n++
	st := s.stats
	st.Evaluations++
	st.Requests += len(c.Prog)
	st.ByStore[c.Store]++
	if c.Tag != "" {
		st.ByTag[c.Tag]++
	}
	for i, r := range c.Prog {
		st.ByKind[r.Req.Kind]++
		st.ByStatus[fmt.Sprint(c.Obs[i].Code)]++
	}
	hasNote, hasPanic := false, false
	for i, o := range c.Obs {
		if len(o.Notes) > 0 {
			hasNote = true
			if len(st.Notes) < 50 {
				st.Notes = append(st.Notes, fmt.Sprintf("case %d step %d (%s): %s", idx, i, c.Prog[i].Req.Kind, strings.Join(o.Notes, "; ")))
			}
		}
		if o.Panic != "" {
			hasPanic = true
		}
	}
	if hasNote {
		st.NoteCases = append(st.NoteCases, idx)
	}
	if hasPanic {
		st.Panics = append(st.Panics, idx)
	}
	_, _ = s.jsonl.Write(append(b, '\n'))
	h := sha256.Sum256([]byte(keytext))
	key := hex.EncodeToString(h[:8])
	if _, dup := s.seen[key]; dup {
		return
	}
	s.seen[key] = idx
	st.Distinct++
	if nontrivial {
		st.Nontrivial++
	}
	if len(st.Samples) < 3 && nontrivial {
		st.Samples = append(st.Samples, c)
	}
	if vb != nil && vb.checker == "" {
		return // oracle-only case
	}
	if vb != nil {
		vb.cur = append(vb.cur, text)
		vb.curIdx = append(vb.curIdx, idx)
		limit := s.perFile
		if vb.checker == "check_enum_quick" || vb.checker == "check_enum_thorough" {
			limit = 1 // one enumeration block per shard
		}
		if len(vb.cur) >= limit {
			s.flushBuf(vb.checker, vb.caseType, vb.cur, vb.curIdx)
			vb.cur, vb.curIdx = nil, nil
		}
		return
	}
	s.cur = append(s.cur, text)
	s.curIdx = append(s.curIdx, idx)
	if len(s.cur) >= s.perFile {
		s.flush()
	}
}

func (s *Sink) flush() {
	s.flushBuf(s.checker, s.caseType, s.cur, s.curIdx)
	s.cur, s.curIdx = nil, nil
}

func (s *Sink) flushBuf(checker, caseType string, cur []string, curIdx []int) {
	if len(cur) == 0 {
		return
	}
	name := fmt.Sprintf("cases_%03d.v", s.fileNo)
	s.fileNo++
	var sb strings.Builder
	defs, body := internLiterals(strings.Join(cur, ";\n"))
	sb.WriteString(s.prelude)
	sb.WriteString(defs)
	sb.WriteString("\nDefinition cases : list " + caseType + " := [\n")
	sb.WriteString(body)
	sb.WriteString("\n].\n")
	sb.WriteString("Definition R := Eval vm_compute in " + checker + " cases.\nPrint R.\n")
	if s.oracle != "" {
		sb.WriteString("Definition RB := Eval vm_compute in " + s.oracle + " cases.\nPrint RB.\n")
	}
	if err := os.WriteFile(filepath.Join(s.dir, name), []byte(sb.String()), 0o666); err != nil {
		panic(err)
	}
	s.stats.Files = append(s.stats.Files, name)
	s.index = append(s.index, curIdx)
}

func (s *Sink) Close(rule string, exhaustive bool) {
	s.flush()
	for _, vb := range s.curV {
		s.flushBuf(vb.checker, vb.caseType, vb.cur, vb.curIdx)
	}
	_ = s.jsonl.Close()
	s.stats.Rule = rule
	s.stats.Exhaustive = exhaustive
	b, _ := json.MarshalIndent(struct {
		*Stats
		Index [][]int `json:"index"`
	}{s.stats, s.index}, "", " ")
	_ = os.WriteFile(filepath.Join(s.dir, "meta.json"), b, 0o666)
}


// parallelN runs f(0..n-1) on w workers.
func parallelN(w, n int, f func(i int)) {
	if w > runtime.NumCPU() {
		w = runtime.NumCPU()
	}
	var wg sync.WaitGroup
	next := int64(-1)
	for k := 0; k < w; k++ {
		wg.Add(1)
		go func() {
			defer wg.Done()
			for {
				i := int(atomic.AddInt64(&next, 1))
				if i >= n {
					return
				}
				f(i)
			}
		}()
	}
	wg.Wait()
}

var _ = json.Marshal
var _ = sha256.Sum256
var _ = hex.EncodeToString
var _ = filepath.Join
var _ = os.Create

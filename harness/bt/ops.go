package main

import (
	"bytes"
	"context"
	"fmt"
	"sort"
	"strings"
	"sync"
	"sync/atomic"
	"time"

	"cloud.google.com/go/bigtable"
	btapb "cloud.google.com/go/bigtable/admin/apiv2/adminpb"
	btpb "cloud.google.com/go/bigtable/apiv2/bigtablepb"
	"github.com/fullstorydev/emulators/bigtable/bttest"
	"google.golang.org/grpc"
	"google.golang.org/grpc/codes"
	"google.golang.org/grpc/status"
	"google.golang.org/protobuf/proto"
	"google.golang.org/protobuf/types/known/durationpb"
)

// ---------- abstract requests (mirror of Emu.BT.Types) ----------

type GcRule struct {
	Kind  string   `json:"kind"` // maxversions | maxage | union | other
	N     int64    `json:"n,omitempty"`
	Secs  int64    `json:"secs,omitempty"`
	Nanos int64    `json:"nanos,omitempty"`
	Rules []GcRule `json:"rules,omitempty"`
}

func (g *GcRule) coq() string {
	if g == nil {
		return "None"
	}
	return "(Some " + g.coq1() + ")"
}
func (g *GcRule) coq1() string {
	switch g.Kind {
	case "maxversions":
		return "(GMaxVersions " + cZ(g.N) + ")"
	case "maxage":
		return fmt.Sprintf("(GMaxAge %s %s)", cZ(g.Secs), cZ(g.Nanos))
	case "union":
		var xs []string
		for i := range g.Rules {
			xs = append(xs, g.Rules[i].coq1())
		}
		return "(GUnion " + cList(xs) + ")"
	}
	return "GOther"
}
func (g *GcRule) pb() *btapb.GcRule {
	if g == nil {
		return nil
	}
	switch g.Kind {
	case "maxversions":
		return &btapb.GcRule{Rule: &btapb.GcRule_MaxNumVersions{MaxNumVersions: int32(g.N)}}
	case "maxage":
		return &btapb.GcRule{Rule: &btapb.GcRule_MaxAge{MaxAge: &durationpb.Duration{Seconds: g.Secs, Nanos: int32(g.Nanos)}}}
	case "union":
		u := &btapb.GcRule_Union{}
		for i := range g.Rules {
			u.Rules = append(u.Rules, g.Rules[i].pb())
		}
		return &btapb.GcRule{Rule: &btapb.GcRule_Union_{Union: u}}
	}
	return &btapb.GcRule{Rule: &btapb.GcRule_Intersection_{Intersection: &btapb.GcRule_Intersection{Rules: []*btapb.GcRule{{Rule: &btapb.GcRule_MaxNumVersions{MaxNumVersions: 1}}}}}}
}
func gcFromPb(r *btapb.GcRule) *GcRule {
	if r == nil {
		return nil
	}
	switch x := r.Rule.(type) {
	case *btapb.GcRule_MaxNumVersions:
		return &GcRule{Kind: "maxversions", N: int64(x.MaxNumVersions)}
	case *btapb.GcRule_MaxAge:
		return &GcRule{Kind: "maxage", Secs: x.MaxAge.GetSeconds(), Nanos: int64(x.MaxAge.GetNanos())}
	case *btapb.GcRule_Union_:
		g := &GcRule{Kind: "union"}
		for _, s := range x.Union.Rules {
			g.Rules = append(g.Rules, *gcFromPb(s))
		}
		return g
	}
	return &GcRule{Kind: "other"}
}

type FamDef struct {
	Name string  `json:"name"`
	Rule *GcRule `json:"rule,omitempty"`
}

func cFamDefs(fs []FamDef) string {
	var xs []string
	for _, f := range fs {
		xs = append(xs, "("+cStr(f.Name)+", "+f.Rule.coq()+")")
	}
	return cList(xs)
}

type Mutation struct {
	Kind  string `json:"kind"` // set | delcol | delfam | delrow | unset
	Fam   string `json:"fam,omitempty"`
	Q     []byte `json:"q,omitempty"`
	Ts    int64  `json:"ts,omitempty"`
	V     []byte `json:"v,omitempty"`
	HasTR bool   `json:"hastr,omitempty"`
	S     int64  `json:"s,omitempty"`
	E     int64  `json:"e,omitempty"`
}

func (m Mutation) coq() string {
	switch m.Kind {
	case "set":
		return fmt.Sprintf("(SetCell %s %s %s %s)", cStr(m.Fam), cBytes(m.Q), cZ(m.Ts), cBytes(m.V))
	case "delcol":
		tr := "None"
		if m.HasTR {
			tr = fmt.Sprintf("(Some (%s, %s))", cZ(m.S), cZ(m.E))
		}
		return fmt.Sprintf("(DeleteFromColumn %s %s %s)", cStr(m.Fam), cBytes(m.Q), tr)
	case "delfam":
		return "(DeleteFromFamily " + cStr(m.Fam) + ")"
	case "delrow":
		return "DeleteFromRow"
	}
	return "MutUnset"
}
func (m Mutation) pb() *btpb.Mutation {
	switch m.Kind {
	case "set":
		return &btpb.Mutation{Mutation: &btpb.Mutation_SetCell_{SetCell: &btpb.Mutation_SetCell{FamilyName: m.Fam, ColumnQualifier: m.Q, TimestampMicros: m.Ts, Value: m.V}}}
	case "delcol":
		d := &btpb.Mutation_DeleteFromColumn{FamilyName: m.Fam, ColumnQualifier: m.Q}
		if m.HasTR {
			d.TimeRange = &btpb.TimestampRange{StartTimestampMicros: m.S, EndTimestampMicros: m.E}
		}
		return &btpb.Mutation{Mutation: &btpb.Mutation_DeleteFromColumn_{DeleteFromColumn: d}}
	case "delfam":
		return &btpb.Mutation{Mutation: &btpb.Mutation_DeleteFromFamily_{DeleteFromFamily: &btpb.Mutation_DeleteFromFamily{FamilyName: m.Fam}}}
	case "delrow":
		return &btpb.Mutation{Mutation: &btpb.Mutation_DeleteFromRow_{DeleteFromRow: &btpb.Mutation_DeleteFromRow{}}}
	}
	return &btpb.Mutation{}
}
func cMuts(ms []Mutation) string {
	var xs []string
	for _, m := range ms {
		xs = append(xs, m.coq())
	}
	return cList(xs)
}
func pbMuts(ms []Mutation) []*btpb.Mutation {
	var xs []*btpb.Mutation
	for _, m := range ms {
		xs = append(xs, m.pb())
	}
	return xs
}

type Rule struct {
	Kind string `json:"kind"` // append | incr | unset
	Fam  string `json:"fam"`
	Q    []byte `json:"q,omitempty"`
	V    []byte `json:"v,omitempty"`
	Amt  int64  `json:"amt,omitempty"`
}

func (r Rule) coq() string {
	switch r.Kind {
	case "append":
		return fmt.Sprintf("(RAppend %s %s %s)", cStr(r.Fam), cBytes(r.Q), cBytes(r.V))
	case "incr":
		return fmt.Sprintf("(RIncrement %s %s %s)", cStr(r.Fam), cBytes(r.Q), cZ(r.Amt))
	}
	return fmt.Sprintf("(RUnset %s %s)", cStr(r.Fam), cBytes(r.Q))
}
func (r Rule) pb() *btpb.ReadModifyWriteRule {
	x := &btpb.ReadModifyWriteRule{FamilyName: r.Fam, ColumnQualifier: r.Q}
	switch r.Kind {
	case "append":
		x.Rule = &btpb.ReadModifyWriteRule_AppendValue{AppendValue: r.V}
	case "incr":
		x.Rule = &btpb.ReadModifyWriteRule_IncrementAmount{IncrementAmount: r.Amt}
	}
	return x
}

// ---- regular expressions: AST printed to RE2 syntax ----
type Re struct {
	Kind   string   `json:"k"` // empty none lit any class cat alt star
	B      int      `json:"b,omitempty"`
	Neg    bool     `json:"neg,omitempty"`
	Ranges [][2]int `json:"ranges,omitempty"`
	A      *Re      `json:"a,omitempty"`
	C      *Re      `json:"c,omitempty"`
}

func (r *Re) coq() string {
	switch r.Kind {
	case "empty":
		return "REmpty"
	case "none":
		return "RNone"
	case "lit":
		return "(RLit " + cN(r.B) + ")"
	case "any":
		return "RAnyNoNL"
	case "class":
		var xs []string
		for _, p := range r.Ranges {
			xs = append(xs, "("+cN(p[0])+", "+cN(p[1])+")")
		}
		return fmt.Sprintf("(RClass %s %s)", cBool(r.Neg), cList(xs))
	case "cat":
		return fmt.Sprintf("(RCat %s %s)", r.A.coq(), r.C.coq())
	case "alt":
		return fmt.Sprintf("(RAlt %s %s)", r.A.coq(), r.C.coq())
	case "star":
		return "(RStar " + r.A.coq() + ")"
	}
	panic("re kind " + r.Kind)
}

// litBytes prints one byte as the emulator's clients would: printable ASCII escaped when it is a
// metacharacter, bytes > 127 raw (the emulator escapes them itself), control bytes as \xHH.
func litByte(b int, inClass bool) []byte {
	c := byte(b)
	switch {
	case c > 127:
		return []byte{c}
	case c < 32 || c == 127:
		return []byte(fmt.Sprintf("\\x%02X", c))
	case strings.ContainsRune(`\.+*?()|[]{}^$-`, rune(c)):
		return []byte{'\\', c}
	}
	return []byte{c}
}
func (r *Re) pattern() []byte {
	switch r.Kind {
	case "empty":
		return []byte("(?:)")
	case "none":
		return []byte(`[^\x00-\xFF]`)
	case "lit":
		return litByte(r.B, false)
	case "any":
		return []byte(".")
	case "class":
		var sb bytes.Buffer
		sb.WriteString("[")
		if r.Neg {
			sb.WriteString("^")
		}
		for _, p := range r.Ranges {
			sb.WriteString(fmt.Sprintf("\\x%02X-\\x%02X", p[0], p[1]))
		}
		sb.WriteString("]")
		return sb.Bytes()
	case "cat":
		return append(append([]byte("(?:"), append(r.A.pattern(), r.C.pattern()...)...), ')')
	case "alt":
		return append(append(append([]byte("(?:"), r.A.pattern()...), append([]byte("|"), r.C.pattern()...)...), ')')
	case "star":
		// a starred atom is written the way people write it (".*", "a*", "[a-c]*"), not as a group
		if r.A.Kind == "lit" || r.A.Kind == "any" || r.A.Kind == "class" {
			return append(r.A.pattern(), '*')
		}
		return append(append([]byte("(?:"), r.A.pattern()...), []byte(")*")...)
	}
	panic("re kind")
}

type Regex struct {
	Bad bool `json:"bad,omitempty"`
	Re  *Re  `json:"re,omitempty"`
}

func (r Regex) coq() string {
	if r.Bad {
		return "RxBad"
	}
	return "(RxOk " + r.Re.coq() + ")"
}
func (r Regex) pattern() []byte {
	if r.Bad {
		return []byte("a(b")
	}
	return r.Re.pattern()
}

type Bound struct {
	Kind string `json:"kind"` // unset closed open
	K    []byte `json:"k,omitempty"`
}

func (b Bound) coq() string {
	switch b.Kind {
	case "closed":
		return "(BClosed " + cBytes(b.K) + ")"
	case "open":
		return "(BOpen " + cBytes(b.K) + ")"
	}
	return "BUnset"
}

type Filter struct {
	Kind  string    `json:"kind"`
	Flag  bool      `json:"flag,omitempty"`
	Subs  []*Filter `json:"subs,omitempty"`
	P     *Filter   `json:"p,omitempty"`
	T     *Filter   `json:"t,omitempty"`
	F     *Filter   `json:"f,omitempty"`
	Rx    *Regex    `json:"rx,omitempty"`
	Fam   string    `json:"fam,omitempty"`
	S     *Bound    `json:"s,omitempty"`
	E     *Bound    `json:"e,omitempty"`
	TS    int64     `json:"ts,omitempty"`
	TE    int64     `json:"te,omitempty"`
	N     int64     `json:"n,omitempty"`
	Label string    `json:"label,omitempty"`
	Prob  float64   `json:"prob,omitempty"`
}

func cOptFilter(f *Filter) string {
	if f == nil {
		return "None"
	}
	return "(Some " + f.coq() + ")"
}
func (f *Filter) coq() string {
	switch f.Kind {
	case "pass":
		return "(FPass " + cBool(f.Flag) + ")"
	case "block":
		return "(FBlock " + cBool(f.Flag) + ")"
	case "chain", "interleave":
		var xs []string
		for _, s := range f.Subs {
			xs = append(xs, s.coq())
		}
		if f.Kind == "chain" {
			return "(FChain " + cList(xs) + ")"
		}
		return "(FInterleave " + cList(xs) + ")"
	case "condition":
		return fmt.Sprintf("(FCondition %s %s %s)", f.P.coq(), cOptFilter(f.T), cOptFilter(f.F))
	case "rowkey":
		return "(FRowKeyRegex " + f.Rx.coq() + ")"
	case "famregex":
		return "(FFamilyRegex " + f.Rx.coq() + ")"
	case "qualregex":
		return "(FQualRegex " + f.Rx.coq() + ")"
	case "valregex":
		return "(FValueRegex " + f.Rx.coq() + ")"
	case "colrange":
		return fmt.Sprintf("(FColRange %s %s %s)", cStr(f.Fam), f.S.coq(), f.E.coq())
	case "valrange":
		return fmt.Sprintf("(FValueRange %s %s)", f.S.coq(), f.E.coq())
	case "tsrange":
		return fmt.Sprintf("(FTsRange %s %s)", cZ(f.TS), cZ(f.TE))
	case "rowlimit":
		return "(FCellsPerRowLimit " + cZ(f.N) + ")"
	case "rowoffset":
		return "(FCellsPerRowOffset " + cZ(f.N) + ")"
	case "collimit":
		return "(FCellsPerColLimit " + cZ(f.N) + ")"
	case "strip":
		return "FStrip"
	case "label":
		return "(FLabel " + cStr(f.Label) + ")"
	case "sample":
		return "(FSample " + cBool(f.Prob > 0 && f.Prob < 1) + ")"
	}
	panic("filter kind " + f.Kind)
}
func (f *Filter) pb() *btpb.RowFilter {
	if f == nil {
		return nil
	}
	switch f.Kind {
	case "pass":
		return &btpb.RowFilter{Filter: &btpb.RowFilter_PassAllFilter{PassAllFilter: f.Flag}}
	case "block":
		return &btpb.RowFilter{Filter: &btpb.RowFilter_BlockAllFilter{BlockAllFilter: f.Flag}}
	case "chain":
		c := &btpb.RowFilter_Chain{}
		for _, s := range f.Subs {
			c.Filters = append(c.Filters, s.pb())
		}
		return &btpb.RowFilter{Filter: &btpb.RowFilter_Chain_{Chain: c}}
	case "interleave":
		c := &btpb.RowFilter_Interleave{}
		for _, s := range f.Subs {
			c.Filters = append(c.Filters, s.pb())
		}
		return &btpb.RowFilter{Filter: &btpb.RowFilter_Interleave_{Interleave: c}}
	case "condition":
		return &btpb.RowFilter{Filter: &btpb.RowFilter_Condition_{Condition: &btpb.RowFilter_Condition{PredicateFilter: f.P.pb(), TrueFilter: f.T.pb(), FalseFilter: f.F.pb()}}}
	case "rowkey":
		return &btpb.RowFilter{Filter: &btpb.RowFilter_RowKeyRegexFilter{RowKeyRegexFilter: f.Rx.pattern()}}
	case "famregex":
		return &btpb.RowFilter{Filter: &btpb.RowFilter_FamilyNameRegexFilter{FamilyNameRegexFilter: string(f.Rx.pattern())}}
	case "qualregex":
		return &btpb.RowFilter{Filter: &btpb.RowFilter_ColumnQualifierRegexFilter{ColumnQualifierRegexFilter: f.Rx.pattern()}}
	case "valregex":
		return &btpb.RowFilter{Filter: &btpb.RowFilter_ValueRegexFilter{ValueRegexFilter: f.Rx.pattern()}}
	case "colrange":
		cr := &btpb.ColumnRange{FamilyName: f.Fam}
		switch f.S.Kind {
		case "closed":
			cr.StartQualifier = &btpb.ColumnRange_StartQualifierClosed{StartQualifierClosed: f.S.K}
		case "open":
			cr.StartQualifier = &btpb.ColumnRange_StartQualifierOpen{StartQualifierOpen: f.S.K}
		}
		switch f.E.Kind {
		case "closed":
			cr.EndQualifier = &btpb.ColumnRange_EndQualifierClosed{EndQualifierClosed: f.E.K}
		case "open":
			cr.EndQualifier = &btpb.ColumnRange_EndQualifierOpen{EndQualifierOpen: f.E.K}
		}
		return &btpb.RowFilter{Filter: &btpb.RowFilter_ColumnRangeFilter{ColumnRangeFilter: cr}}
	case "valrange":
		vr := &btpb.ValueRange{}
		switch f.S.Kind {
		case "closed":
			vr.StartValue = &btpb.ValueRange_StartValueClosed{StartValueClosed: f.S.K}
		case "open":
			vr.StartValue = &btpb.ValueRange_StartValueOpen{StartValueOpen: f.S.K}
		}
		switch f.E.Kind {
		case "closed":
			vr.EndValue = &btpb.ValueRange_EndValueClosed{EndValueClosed: f.E.K}
		case "open":
			vr.EndValue = &btpb.ValueRange_EndValueOpen{EndValueOpen: f.E.K}
		}
		return &btpb.RowFilter{Filter: &btpb.RowFilter_ValueRangeFilter{ValueRangeFilter: vr}}
	case "tsrange":
		return &btpb.RowFilter{Filter: &btpb.RowFilter_TimestampRangeFilter{TimestampRangeFilter: &btpb.TimestampRange{StartTimestampMicros: f.TS, EndTimestampMicros: f.TE}}}
	case "rowlimit":
		return &btpb.RowFilter{Filter: &btpb.RowFilter_CellsPerRowLimitFilter{CellsPerRowLimitFilter: int32(f.N)}}
	case "rowoffset":
		return &btpb.RowFilter{Filter: &btpb.RowFilter_CellsPerRowOffsetFilter{CellsPerRowOffsetFilter: int32(f.N)}}
	case "collimit":
		return &btpb.RowFilter{Filter: &btpb.RowFilter_CellsPerColumnLimitFilter{CellsPerColumnLimitFilter: int32(f.N)}}
	case "strip":
		return &btpb.RowFilter{Filter: &btpb.RowFilter_StripValueTransformer{StripValueTransformer: true}}
	case "label":
		return &btpb.RowFilter{Filter: &btpb.RowFilter_ApplyLabelTransformer{ApplyLabelTransformer: f.Label}}
	case "sample":
		return &btpb.RowFilter{Filter: &btpb.RowFilter_RowSampleFilter{RowSampleFilter: f.Prob}}
	}
	panic("filter kind " + f.Kind)
}

type RowRange struct {
	S Bound `json:"s"`
	E Bound `json:"e"`
}

type FMod struct {
	Kind string  `json:"kind"` // create update drop none
	ID   string  `json:"id"`
	Rule *GcRule `json:"rule,omitempty"`
}

type Entry struct {
	Key  []byte     `json:"key"`
	Muts []Mutation `json:"muts"`
}

type Req struct {
	Kind     string     `json:"kind"`
	Parent   string     `json:"parent,omitempty"`
	Tid      string     `json:"tid,omitempty"`
	Fams     []FamDef   `json:"fams,omitempty"`
	Table    string     `json:"table,omitempty"`
	Mods     []FMod     `json:"mods,omitempty"`
	All      bool       `json:"all,omitempty"`
	Prefix   []byte     `json:"prefix,omitempty"`
	HasPfx   bool       `json:"haspfx,omitempty"`
	AllFalse bool       `json:"allfalse,omitempty"` // drop: the target is delete_all_data_from_table=false (sent explicitly)
	Key      []byte     `json:"key,omitempty"`
	Muts     []Mutation `json:"muts,omitempty"`
	Entries  []Entry    `json:"entries,omitempty"`
	Pred     *Filter    `json:"pred,omitempty"`
	TM       []Mutation `json:"tm,omitempty"`
	FM       []Mutation `json:"fm,omitempty"`
	Rules    []Rule     `json:"rules,omitempty"`
	Keys     [][]byte   `json:"keys,omitempty"`
	Ranges   []RowRange `json:"ranges,omitempty"`
	Filter   *Filter    `json:"filter,omitempty"`
	Limit    int64      `json:"limit,omitempty"`
	// read only, oracle-only cases: the client goes away -- the stream's Send fails from the n-th message on
	FailSend int `json:"fail_send,omitempty"`
}

type Call struct {
	Req   Req    `json:"req"`
	Now   int64  `json:"now"`
	Coins []bool `json:"coins,omitempty"`
}

func (r Req) coq() string {
	switch r.Kind {
	case "create":
		return fmt.Sprintf("(BCreateTable %s %s %s)", cStr(r.Parent), cStr(r.Tid), cFamDefs(r.Fams))
	case "delete":
		return "(BDeleteTable " + cStr(r.Table) + ")"
	case "get":
		return "(BGetTable " + cStr(r.Table) + ")"
	case "list":
		return "(BListTables " + cStr(r.Parent) + ")"
	case "modify":
		var xs []string
		for _, m := range r.Mods {
			switch m.Kind {
			case "create":
				xs = append(xs, fmt.Sprintf("(MCreate %s %s)", cStr(m.ID), m.Rule.coq()))
			case "update":
				xs = append(xs, fmt.Sprintf("(MUpdate %s %s)", cStr(m.ID), m.Rule.coq()))
			case "drop":
				xs = append(xs, "(MDrop "+cStr(m.ID)+")")
			default:
				xs = append(xs, "(MNone "+cStr(m.ID)+")")
			}
		}
		return fmt.Sprintf("(BModifyFamilies %s %s)", cStr(r.Table), cList(xs))
	case "drop":
		p := "None"
		if r.HasPfx {
			p = "(Some " + cBytes(r.Prefix) + ")"
		}
		return fmt.Sprintf("(BDropRowRange %s %s %s)", cStr(r.Table), cBool(r.All), p)
	case "mutate":
		return fmt.Sprintf("(BMutateRow %s %s %s)", cStr(r.Table), cBytes(r.Key), cMuts(r.Muts))
	case "mutaterows":
		var xs []string
		for _, e := range r.Entries {
			xs = append(xs, "("+cBytes(e.Key)+", "+cMuts(e.Muts)+")")
		}
		return fmt.Sprintf("(BMutateRows %s %s)", cStr(r.Table), cList(xs))
	case "cam":
		return fmt.Sprintf("(BCheckAndMutate %s %s %s %s %s)", cStr(r.Table), cBytes(r.Key), cOptFilter(r.Pred), cMuts(r.TM), cMuts(r.FM))
	case "rmw":
		var xs []string
		for _, x := range r.Rules {
			xs = append(xs, x.coq())
		}
		return fmt.Sprintf("(BReadModifyWrite %s %s %s)", cStr(r.Table), cBytes(r.Key), cList(xs))
	case "read":
		var ks, rs []string
		for _, k := range r.Keys {
			ks = append(ks, cBytes(k))
		}
		for _, x := range r.Ranges {
			rs = append(rs, fmt.Sprintf("(mkRange %s %s)", x.S.coq(), x.E.coq()))
		}
		return fmt.Sprintf("(BReadRows %s %s %s %s %s)", cStr(r.Table), cList(ks), cList(rs), cOptFilter(r.Filter), cZ(r.Limit))
	case "sample":
		return "(BSampleRowKeys " + cStr(r.Table) + ")"
	case "gc":
		return "(BRunGC " + cStr(r.Table) + ")"
	}
	panic("req kind " + r.Kind)
}

func (c Call) coq() string {
	var cs []string
	for _, b := range c.Coins {
		cs = append(cs, cBool(b))
	}
	return fmt.Sprintf("(mkCall %s %s %s)", c.Req.coq(), cZ(c.Now), cList(cs))
}

// ---------- observed responses ----------

type Cell struct {
	Ts     int64    `json:"ts"`
	V      []byte   `json:"v,omitempty"`
	Labels []string `json:"labels,omitempty"`
}
type Col struct {
	Q     []byte `json:"q"`
	Cells []Cell `json:"cells"`
}
type Fam struct {
	Name string `json:"name"`
	Cols []Col  `json:"cols"`
}
type Row struct {
	Key  []byte `json:"key"`
	Fams []Fam  `json:"fams"`
}
type Sample struct {
	Key []byte `json:"key"`
	Off int64  `json:"off"`
}

type Resp struct {
	Code    int      `json:"code"`
	Kind    string   `json:"kind"` // none rows matched entries table tables sample
	Rows    []Row    `json:"rows,omitempty"`
	Matched bool     `json:"matched,omitempty"`
	Entries []int    `json:"entries,omitempty"`
	Name    string   `json:"name,omitempty"`
	Fams    []FamDef `json:"fams,omitempty"`
	Names   []string `json:"names,omitempty"`
	Samples []Sample `json:"samples,omitempty"`
	Notes   []string `json:"notes,omitempty"`
	Panic   string   `json:"panic,omitempty"`
	NMsgs   int      `json:"nmsgs,omitempty"` // response messages of a ReadRows stream (not compared)
}

func (r Row) canon() Row {
	out := Row{Key: r.Key}
	fams := append([]Fam{}, r.Fams...)
	sort.SliceStable(fams, func(i, j int) bool { return fams[i].Name < fams[j].Name })
	for _, f := range fams {
		nf := Fam{Name: f.Name}
		for _, c := range f.Cols {
			cells := append([]Cell{}, c.Cells...)
			sort.SliceStable(cells, func(i, j int) bool {
				if cells[i].Ts != cells[j].Ts {
					return cells[i].Ts > cells[j].Ts
				}
				if c := bytes.Compare(cells[i].V, cells[j].V); c != 0 {
					return c < 0
				}
				return strings.Join(cells[i].Labels, "\x00") < strings.Join(cells[j].Labels, "\x00")
			})
			nf.Cols = append(nf.Cols, Col{Q: c.Q, Cells: cells})
		}
		out.Fams = append(out.Fams, nf)
	}
	return out
}

func (r Row) coq() string {
	var fs []string
	for _, f := range r.Fams {
		var cs []string
		for _, c := range f.Cols {
			var xs []string
			for _, x := range c.Cells {
				var ls []string
				for _, l := range x.Labels {
					ls = append(ls, cStr(l))
				}
				xs = append(xs, fmt.Sprintf("(mkCell %s %s %s)", cZ(x.Ts), cBytes(x.V), cList(ls)))
			}
			cs = append(cs, fmt.Sprintf("(mkCol %s %s)", cBytes(c.Q), cList(xs)))
		}
		fs = append(fs, fmt.Sprintf("(mkFam %s %s)", cStr(f.Name), cList(cs)))
	}
	return fmt.Sprintf("(mkRow %s %s)", cBytes(r.Key), cList(fs))
}

func (r Resp) coq() string {
	body := "YNone"
	switch r.Kind {
	case "rows":
		var xs []string
		for _, x := range r.Rows {
			xs = append(xs, x.canon().coq())
		}
		body = "(YRows " + cList(xs) + ")"
	case "matched":
		body = "(YMatched " + cBool(r.Matched) + ")"
	case "entries":
		var xs []string
		for _, e := range r.Entries {
			xs = append(xs, cN(e))
		}
		body = "(YEntries " + cList(xs) + ")"
	case "table":
		fs := append([]FamDef{}, r.Fams...)
		sort.Slice(fs, func(i, j int) bool { return fs[i].Name < fs[j].Name })
		body = fmt.Sprintf("(YTable %s %s)", cStr(r.Name), cFamDefs(fs))
	case "tables":
		ns := append([]string{}, r.Names...)
		sort.Strings(ns)
		var xs []string
		for _, n := range ns {
			xs = append(xs, cStr(n))
		}
		body = "(YTables " + cList(xs) + ")"
	case "sample":
		var xs []string
		for _, s := range r.Samples {
			xs = append(xs, "("+cBytes(s.Key)+", "+cZ(s.Off)+")")
		}
		body = "(YSample " + cList(xs) + ")"
	}
	return fmt.Sprintf("(mkBResp %s %s)", cN(r.Code), body)
}

// ---------- executing requests on the real implementation ----------

type Engine struct {
	name string
	mk   func() (bttest.Storage, func())
}

// The coin of the row sample filter is a package variable of bttest. It is installed once and
// looks the calling goroutine up: every request (sequential or scheduled) registers its own coins,
// so emulator instances running in parallel in this process never consume each other's coins.
type coinState struct {
	coins []bool
	i     int
}

var (
	coinByG  sync.Map // goroutine id -> *coinState
	coinOnce sync.Once
)

func globalCoin() float64 {
	v, ok := coinByG.Load(goid())
	if !ok {
		return 0.75
	}
	st := v.(*coinState)
	i := st.i
	st.i++
	if i < len(st.coins) && st.coins[i] {
		return 0.25
	}
	return 0.75
}

// heldAnswer: the ReadModifyWriteRow answer most recently handed out by this emulator, exactly as the
// handler returned it (not yet re-marshalled), together with its wire form at that moment.  An answer
// belongs to the client: it must not change when later requests run.
type heldAnswer struct {
	msg  proto.Message
	wire []byte
	what string
}

type Emu struct {
	held       atomic.Pointer[heldAnswer]
	concurrent bool // requests run concurrently: per-goroutine clocks only
	nowByG     sync.Map
	v          *bttest.VerifServer
	now        int64
	coins      []bool
	ci         int
}

func NewEmu(st bttest.Storage) *Emu {
	e := &Emu{}
	e.v = bttest.VerifNewServer(bttest.Options{Storage: st, Clock: func() bigtable.Timestamp {
		// concurrent requests each carry their own clock value
		if v, ok := e.nowByG.Load(goid()); ok {
			return bigtable.Timestamp(v.(int64))
		}
		if e.concurrent {
			return 0
		}
		return bigtable.Timestamp(e.now)
	}})
	return e
}

// coin feeds the row sample filter: the harness decides each outcome in advance
func (e *Emu) coin() float64 {
	if e.ci < len(e.coins) {
		b := e.coins[e.ci]
		e.ci++
		if b {
			return 0.25
		}
		return 0.75
	}
	e.ci++
	return 0.75
}

type rrStream struct {
	grpc.ServerStream
	msgs     []*btpb.ReadRowsResponse
	failFrom int // > 0: Send fails from this message on (the client has gone away)
}

func (s *rrStream) Context() context.Context { return context.Background() }
func (s *rrStream) Send(m *btpb.ReadRowsResponse) error {
	if s.failFrom > 0 && len(s.msgs)+1 >= s.failFrom {
		return status.Error(codes.Canceled, "client went away")
	}
	s.msgs = append(s.msgs, proto.Clone(m).(*btpb.ReadRowsResponse))
	return nil
}

type mrStream struct {
	grpc.ServerStream
	msgs []*btpb.MutateRowsResponse
}

func (s *mrStream) Context() context.Context { return context.Background() }
func (s *mrStream) Send(m *btpb.MutateRowsResponse) error {
	s.msgs = append(s.msgs, m)
	return nil
}

type skStream struct {
	grpc.ServerStream
	msgs []*btpb.SampleRowKeysResponse
}

func (s *skStream) Context() context.Context { return context.Background() }
func (s *skStream) Send(m *btpb.SampleRowKeysResponse) error {
	s.msgs = append(s.msgs, m)
	return nil
}

// wire round trip: direct calls must see wire-shaped messages
func rt[T proto.Message](m T) T {
	b, err := proto.Marshal(m)
	if err != nil {
		panic("marshal: " + err.Error())
	}
	out := m.ProtoReflect().New().Interface().(T)
	if err := proto.Unmarshal(b, out); err != nil {
		panic(err)
	}
	return out
}

func codeOf(err error) int {
	if err == nil {
		return 0
	}
	return int(status.Code(err))
}

// decodeChunks is the standard client chunk state machine; it also checks well-formedness.
func decodeChunks(msgs []*btpb.ReadRowsResponse) ([]Row, []string) {
	var rows []Row
	var notes []string
	var cur *Row
	note := func(s string) {
		if len(notes) < 5 {
			notes = append(notes, s)
		}
	}
	for _, m := range msgs {
		if len(m.Chunks) == 0 {
			note("response message without chunks")
		}
		for _, ch := range m.Chunks {
			if len(ch.RowKey) > 0 {
				if cur != nil {
					note("new row key before the previous row was committed")
				}
				cur = &Row{Key: ch.RowKey}
				if ch.FamilyName == nil || ch.Qualifier == nil {
					note("first chunk of a row lacks family or qualifier")
				}
			}
			if cur == nil {
				note("chunk that belongs to no row")
				continue
			}
			if ch.FamilyName != nil {
				cur.Fams = append(cur.Fams, Fam{Name: ch.FamilyName.Value})
				if ch.Qualifier == nil {
					note("family change without qualifier")
				}
			}
			if ch.Qualifier != nil {
				if len(cur.Fams) == 0 {
					note("qualifier before any family")
					continue
				}
				f := &cur.Fams[len(cur.Fams)-1]
				f.Cols = append(f.Cols, Col{Q: ch.Qualifier.Value})
			}
			if len(cur.Fams) == 0 || len(cur.Fams[len(cur.Fams)-1].Cols) == 0 {
				note("cell before family/qualifier")
				continue
			}
			f := &cur.Fams[len(cur.Fams)-1]
			c := &f.Cols[len(f.Cols)-1]
			c.Cells = append(c.Cells, Cell{Ts: ch.TimestampMicros, V: ch.Value, Labels: ch.Labels})
			if ch.GetResetRow() {
				note("unexpected reset_row")
			}
			if ch.GetCommitRow() {
				rows = append(rows, *cur)
				cur = nil
			}
		}
	}
	if cur != nil {
		note("stream ended inside an uncommitted row")
	}
	// ascending, duplicate-free row keys; families once; columns ascending; cells descending
	for i := range rows {
		if i > 0 && bytes.Compare(rows[i-1].Key, rows[i].Key) >= 0 {
			note("rows not in strictly ascending key order")
		}
		seen := map[string]bool{}
		for _, f := range rows[i].Fams {
			if seen[f.Name] {
				note("family appears twice in a row")
			}
			seen[f.Name] = true
			for j := range f.Cols {
				if j > 0 && bytes.Compare(f.Cols[j-1].Q, f.Cols[j].Q) >= 0 {
					note("columns not in strictly ascending qualifier order")
				}
				for k := 1; k < len(f.Cols[j].Cells); k++ {
					if f.Cols[j].Cells[k-1].Ts < f.Cols[j].Cells[k].Ts {
						note("cells not in descending timestamp order")
					}
				}
			}
		}
	}
	return rows, notes
}

func famDefsOf(t *btapb.Table) []FamDef {
	var fs []FamDef
	for name, cf := range t.GetColumnFamilies() {
		fs = append(fs, FamDef{Name: name, Rule: gcFromPb(cf.GetGcRule())})
	}
	sort.Slice(fs, func(i, j int) bool { return fs[i].Name < fs[j].Name })
	return fs
}

// ExecFast: no hang watchdog (for high-volume enumerations)
func (e *Emu) ExecFast(c Call) (out Resp) {
	defer func() {
		if p := recover(); p != nil {
			out = Resp{Code: 99, Kind: "none", Panic: fmt.Sprint(p)}
		}
	}()
	return e.exec(c)
}

func (e *Emu) Exec(c Call) (out Resp) {
	defer func() {
		if p := recover(); p != nil {
			out = Resp{Code: 99, Kind: "none", Panic: fmt.Sprint(p)}
		}
	}()
	done := make(chan Resp, 1)
	go func() {
		defer func() {
			if p := recover(); p != nil {
				done <- Resp{Code: 99, Kind: "none", Panic: fmt.Sprint(p)}
			}
		}()
		done <- e.exec(c)
	}()
	select {
	case r := <-done:
		return r
	case <-time.After(20 * time.Second):
		return Resp{Code: 98, Kind: "none", Panic: "request did not return within 20s (hang)"}
	}
}

func (e *Emu) exec(c Call) Resp {
	g := goid()
	e.nowByG.Store(g, c.Now)
	defer e.nowByG.Delete(g)
	if !e.concurrent {
		e.now = c.Now
		e.coins = c.Coins
		e.ci = 0
	}
	coinOnce.Do(func() { bttest.VerifSetRandFloat(globalCoin) })
	coinByG.Store(g, &coinState{coins: c.Coins})
	defer coinByG.Delete(g)
	ctx := context.Background()
	r := c.Req
	data, admin := e.v.Data(), e.v.Admin()
	switch r.Kind {
	case "create":
		t := &btapb.Table{ColumnFamilies: map[string]*btapb.ColumnFamily{}}
		for _, f := range r.Fams {
			t.ColumnFamilies[f.Name] = &btapb.ColumnFamily{GcRule: f.Rule.pb()}
		}
		res, err := admin.CreateTable(ctx, rt(&btapb.CreateTableRequest{Parent: r.Parent, TableId: r.Tid, Table: t}))
		if err != nil {
			return Resp{Code: codeOf(err), Kind: "none"}
		}
		res = rt(res)
		return Resp{Kind: "table", Name: res.Name, Fams: famDefsOf(res)}
	case "delete":
		_, err := admin.DeleteTable(ctx, rt(&btapb.DeleteTableRequest{Name: r.Table}))
		return Resp{Code: codeOf(err), Kind: "none"}
	case "get":
		res, err := admin.GetTable(ctx, rt(&btapb.GetTableRequest{Name: r.Table}))
		if err != nil {
			return Resp{Code: codeOf(err), Kind: "none"}
		}
		res = rt(res)
		return Resp{Kind: "table", Name: res.Name, Fams: famDefsOf(res)}
	case "list":
		res, err := admin.ListTables(ctx, rt(&btapb.ListTablesRequest{Parent: r.Parent}))
		if err != nil {
			return Resp{Code: codeOf(err), Kind: "none"}
		}
		o := Resp{Kind: "tables"}
		for _, t := range res.Tables {
			o.Names = append(o.Names, t.Name)
		}
		return o
	case "modify":
		req := &btapb.ModifyColumnFamiliesRequest{Name: r.Table}
		for _, m := range r.Mods {
			x := &btapb.ModifyColumnFamiliesRequest_Modification{Id: m.ID}
			switch m.Kind {
			case "create":
				x.Mod = &btapb.ModifyColumnFamiliesRequest_Modification_Create{Create: &btapb.ColumnFamily{GcRule: m.Rule.pb()}}
			case "update":
				x.Mod = &btapb.ModifyColumnFamiliesRequest_Modification_Update{Update: &btapb.ColumnFamily{GcRule: m.Rule.pb()}}
			case "drop":
				x.Mod = &btapb.ModifyColumnFamiliesRequest_Modification_Drop{Drop: true}
			}
			req.Modifications = append(req.Modifications, x)
		}
		res, err := admin.ModifyColumnFamilies(ctx, rt(req))
		if err != nil {
			return Resp{Code: codeOf(err), Kind: "none"}
		}
		res = rt(res)
		return Resp{Kind: "table", Name: res.Name, Fams: famDefsOf(res)}
	case "drop":
		req := &btapb.DropRowRangeRequest{Name: r.Table}
		if r.All {
			req.Target = &btapb.DropRowRangeRequest_DeleteAllDataFromTable{DeleteAllDataFromTable: true}
		} else if r.HasPfx {
			req.Target = &btapb.DropRowRangeRequest_RowKeyPrefix{RowKeyPrefix: r.Prefix}
		} else if r.AllFalse {
			req.Target = &btapb.DropRowRangeRequest_DeleteAllDataFromTable{DeleteAllDataFromTable: false}
		}
		_, err := admin.DropRowRange(ctx, rt(req))
		return Resp{Code: codeOf(err), Kind: "none"}
	case "mutate":
		_, err := data.MutateRow(ctx, rt(&btpb.MutateRowRequest{TableName: r.Table, RowKey: r.Key, Mutations: pbMuts(r.Muts)}))
		return Resp{Code: codeOf(err), Kind: "none"}
	case "mutaterows":
		req := &btpb.MutateRowsRequest{TableName: r.Table}
		for _, en := range r.Entries {
			req.Entries = append(req.Entries, &btpb.MutateRowsRequest_Entry{RowKey: en.Key, Mutations: pbMuts(en.Muts)})
		}
		st := &mrStream{}
		err := data.MutateRows(rt(req), st)
		if err != nil {
			return Resp{Code: codeOf(err), Kind: "none"}
		}
		o := Resp{Kind: "entries"}
		var notes []string
		idx := 0
		for _, m := range st.msgs {
			for _, en := range m.Entries {
				if int(en.Index) != idx {
					notes = append(notes, "entry indices not consecutive")
				}
				idx++
				o.Entries = append(o.Entries, int(en.GetStatus().GetCode()))
			}
		}
		if idx != len(r.Entries) {
			notes = append(notes, "number of entry statuses differs from number of entries")
		}
		o.Notes = notes
		return o
	case "cam":
		res, err := data.CheckAndMutateRow(ctx, rt(&btpb.CheckAndMutateRowRequest{TableName: r.Table, RowKey: r.Key, PredicateFilter: r.Pred.pb(), TrueMutations: pbMuts(r.TM), FalseMutations: pbMuts(r.FM)}))
		if err != nil {
			return Resp{Code: codeOf(err), Kind: "none"}
		}
		return Resp{Kind: "matched", Matched: res.PredicateMatched}
	case "rmw":
		req := &btpb.ReadModifyWriteRowRequest{TableName: r.Table, RowKey: r.Key}
		for _, x := range r.Rules {
			req.Rules = append(req.Rules, x.pb())
		}
		res, err := data.ReadModifyWriteRow(ctx, rt(req))
		if err != nil {
			return Resp{Code: codeOf(err), Kind: "none"}
		}
		var stale []string
		if h := e.held.Load(); h != nil {
			if now, _ := proto.Marshal(h.msg); !bytes.Equal(now, h.wire) {
				stale = append(stale, "an answer handed out earlier ("+h.what+") changed while a later request ran")
			}
		}
		if w, err := proto.Marshal(res); err == nil {
			e.held.Store(&heldAnswer{msg: res, wire: w, what: fmt.Sprintf("ReadModifyWriteRow %q", r.Key)})
		}
		res = rt(res)
		row := Row{Key: res.Row.GetKey()}
		for _, f := range res.Row.GetFamilies() {
			nf := Fam{Name: f.Name}
			for _, cl := range f.Columns {
				nc := Col{Q: cl.Qualifier}
				for _, x := range cl.Cells {
					nc.Cells = append(nc.Cells, Cell{Ts: x.TimestampMicros, V: x.Value, Labels: x.Labels})
				}
				nf.Cols = append(nf.Cols, nc)
			}
			row.Fams = append(row.Fams, nf)
		}
		return Resp{Kind: "rows", Rows: []Row{row}, Notes: stale}
	case "read":
		req := &btpb.ReadRowsRequest{TableName: r.Table, Filter: r.Filter.pb(), RowsLimit: r.Limit}
		if len(r.Keys)+len(r.Ranges) > 0 {
			req.Rows = &btpb.RowSet{RowKeys: r.Keys}
			for _, x := range r.Ranges {
				rr := &btpb.RowRange{}
				switch x.S.Kind {
				case "closed":
					rr.StartKey = &btpb.RowRange_StartKeyClosed{StartKeyClosed: x.S.K}
				case "open":
					rr.StartKey = &btpb.RowRange_StartKeyOpen{StartKeyOpen: x.S.K}
				}
				switch x.E.Kind {
				case "closed":
					rr.EndKey = &btpb.RowRange_EndKeyClosed{EndKeyClosed: x.E.K}
				case "open":
					rr.EndKey = &btpb.RowRange_EndKeyOpen{EndKeyOpen: x.E.K}
				}
				req.Rows.RowRanges = append(req.Rows.RowRanges, rr)
			}
		}
		st := &rrStream{failFrom: r.FailSend}
		err := data.ReadRows(rt(req), st)
		if err != nil {
			return Resp{Code: codeOf(err), Kind: "none"}
		}
		rows, notes := decodeChunks(st.msgs)
		return Resp{Kind: "rows", Rows: rows, Notes: notes, NMsgs: len(st.msgs)}
	case "sample":
		st := &skStream{}
		err := data.SampleRowKeys(rt(&btpb.SampleRowKeysRequest{TableName: r.Table}), st)
		if err != nil {
			return Resp{Code: codeOf(err), Kind: "none"}
		}
		o := Resp{Kind: "sample"}
		for _, m := range st.msgs {
			o.Samples = append(o.Samples, Sample{Key: m.RowKey, Off: m.OffsetBytes})
		}
		return o
	case "gc":
		if !e.v.RunGC(r.Table) {
			return Resp{Code: int(codes.NotFound), Kind: "none"}
		}
		return Resp{Kind: "none"}
	}
	panic("req kind " + r.Kind)
}

// closeEmu closes the server's row stores, but does not wait forever: a handler that panicked while
// holding the registry lock (finding BT-16) leaves the server wedged.
func closeEmu(e *Emu) {
	done := make(chan struct{})
	go func() {
		defer close(done)
		defer func() { _ = recover() }()
		e.v.Close()
	}()
	select {
	case <-done:
	case <-time.After(2 * time.Second):
	}
}

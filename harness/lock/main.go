// Harness for property C19 (gcsutil.TransientLockMap): drives real goroutines step by step
// through the verif yield points and writes the schedules with the observations as Gallina
// literals for the correspondence check against Lock/LockExec.v.
package main

import (
	"crypto/sha256"
	"encoding/hex"
	"encoding/json"
	"flag"
	"fmt"
	"math/rand"
	"os"
	"path/filepath"
	"strings"
)

// A Case is one schedule on a fresh lock map.  Prog is the list of actions actually performed
// (the driver names prog[i].kind in its reports), Obs the observation of each.
type Case struct {
	Store   string `json:"store"`
	Tag     string `json:"tag,omitempty"`
	Threads int    `json:"threads"`
	Prog    []Act  `json:"prog"`
	Obs     []Obs  `json:"obs"`
}

func (a Act) coq() string {
	switch a.Kind {
	case "call_lock":
		return fmt.Sprintf("ACall %d (Lock %d)", a.T, a.K)
	case "call_unlock":
		return fmt.Sprintf("ACall %d (Unlock %d)", a.T, a.K)
	case "cancel":
		return fmt.Sprintf("ACancel %d", a.T)
	}
	return fmt.Sprintf("AStep %d true", a.T)
}

var classCoq = map[string]string{"stepped": "KStepped", "blocked": "KBlocked", "true": "KTrue", "false": "KFalse", "done": "KDone", "panic": "KPanic"}

func stepCoq(a Act, o Obs) string {
	return fmt.Sprintf("(%s, (%s, %d))", a.coq(), classCoq[o.Class], o.Size)
}

type Stats struct {
	Evaluations int            `json:"evaluations"`
	Requests    int            `json:"requests"`
	Distinct    int            `json:"distinct"`
	Nontrivial  int            `json:"distinct_nontrivial"`
	ByKind      map[string]int `json:"by_kind"`
	ByStatus    map[string]int `json:"by_status"`
	ByStore     map[string]int `json:"by_store"`
	ByTag       map[string]int `json:"by_tag"`
	Notes       []string       `json:"notes"`
	NoteCases   []int          `json:"note_cases"`
	Panics      []int          `json:"panic_cases"` // always empty: a panicking Unlock is an expected, modelled outcome
	Samples     []Case         `json:"samples"`
	Files       []string       `json:"files"`
	Exhaustive  bool           `json:"exhaustive"`
	Rule        string         `json:"rule"`
	Extra       map[string]any `json:"extra,omitempty"`
}

// Sink writes cases_NNN.v / cases.jsonl / meta.json.  Every distinct (action, observation) pair of a
// file becomes one named Definition, so a case is a list of identifiers (fast to parse).
type Sink struct {
	dir     string
	perFile int
	cur     []string
	curIdx  []int
	steps   map[string]string
	defs    []string
	fileNo  int
	jsonl   *os.File
	seen    map[string]int
	n       int
	stats   *Stats
	index   [][]int
}

const lockPrelude = `From Coq Require Import List NArith.
Import ListNotations.
From Emu.Lock Require Import LockExec LockCheck.
`

func NewSink(dir string, perFile int) *Sink {
	_ = os.MkdirAll(dir, 0o777)
	f, err := os.Create(filepath.Join(dir, "cases.jsonl"))
	if err != nil {
		panic(err)
	}
	return &Sink{dir: dir, perFile: perFile, jsonl: f, seen: map[string]int{}, steps: map[string]string{},
		stats: &Stats{ByKind: map[string]int{}, ByStatus: map[string]int{}, ByStore: map[string]int{}, ByTag: map[string]int{}, Extra: map[string]any{}}}
}

func nontrivial(c Case) bool {
	for _, o := range c.Obs {
		if o.Class == "blocked" || o.Class == "false" || o.Class == "panic" {
			return true
		}
	}
	return false
}

func (s *Sink) Add(c Case) {
	idx := s.n
	s.n++
	st := s.stats
	st.Evaluations++
	st.Requests += len(c.Prog)
	st.ByStore[c.Store]++
	st.ByTag[c.Tag]++
	hasNote := false
	for i, a := range c.Prog {
		st.ByKind[a.Kind]++
		st.ByStatus[c.Obs[i].Class]++
		if len(c.Obs[i].Notes) > 0 {
			hasNote = true
			if len(st.Notes) < 50 {
				st.Notes = append(st.Notes, fmt.Sprintf("case %d step %d (%s): %s", idx, i, a.Kind, strings.Join(c.Obs[i].Notes, "; ")))
			}
		}
	}
	if hasNote {
		st.NoteCases = append(st.NoteCases, idx)
	}
	b, _ := json.Marshal(c)
	_, _ = s.jsonl.Write(append(b, '\n'))
	// canonical text (independent of the per-file step names)
	var canon strings.Builder
	fmt.Fprintf(&canon, "%d|", c.Threads)
	texts := make([]string, len(c.Prog))
	for i := range c.Prog {
		texts[i] = stepCoq(c.Prog[i], c.Obs[i])
		canon.WriteString(texts[i])
	}
	h := sha256.Sum256([]byte(canon.String()))
	key := hex.EncodeToString(h[:10])
	if _, dup := s.seen[key]; dup {
		return
	}
	s.seen[key] = idx
	st.Distinct++
	nt := nontrivial(c)
	if nt {
		st.Nontrivial++
		if len(st.Samples) < 3 {
			st.Samples = append(st.Samples, c)
		}
	}
	names := make([]string, len(texts))
	for i, t := range texts {
		n, ok := s.steps[t]
		if !ok {
			n = fmt.Sprintf("a%d_", len(s.steps))
			s.steps[t] = n
			s.defs = append(s.defs, fmt.Sprintf("Definition %s : cstep := %s.\n", n, t))
		}
		names[i] = n
	}
	s.cur = append(s.cur, fmt.Sprintf("(%d, [%s])", c.Threads, strings.Join(names, ";")))
	s.curIdx = append(s.curIdx, idx)
	if len(s.cur) >= s.perFile {
		s.flush()
	}
}

func (s *Sink) flush() {
	if len(s.cur) == 0 {
		return
	}
	name := fmt.Sprintf("cases_%03d.v", s.fileNo)
	s.fileNo++
	var sb strings.Builder
	sb.WriteString(lockPrelude)
	for _, d := range s.defs {
		sb.WriteString(d)
	}
	sb.WriteString("\nDefinition cases : list case := [\n")
	sb.WriteString(strings.Join(s.cur, ";\n"))
	sb.WriteString("\n].\n")
	sb.WriteString("Definition R := Eval vm_compute in check_all cases.\nPrint R.\n")
	sb.WriteString("Definition RB := Eval vm_compute in oracle_all cases.\nPrint RB.\n")
	if err := os.WriteFile(filepath.Join(s.dir, name), []byte(sb.String()), 0o666); err != nil {
		panic(err)
	}
	s.stats.Files = append(s.stats.Files, name)
	s.index = append(s.index, s.curIdx)
	s.cur, s.curIdx, s.defs, s.steps = nil, nil, nil, map[string]string{}
}

func (s *Sink) Close(rule string, exhaustive bool) {
	s.flush()
	_ = s.jsonl.Close()
	s.stats.Rule = rule
	s.stats.Exhaustive = exhaustive
	b, _ := json.MarshalIndent(struct {
		*Stats
		Index [][]int `json:"index"`
	}{s.stats, s.index}, "", " ")
	_ = os.WriteFile(filepath.Join(s.dir, "meta.json"), b, 0o666)
}

func main() {
	prop := flag.String("prop", "", "property id")
	tier := flag.String("tier", "quick", "quick|thorough")
	seed := flag.Int64("seed", 1, "PRNG seed")
	out := flag.String("out", "", "output directory")
	replay := flag.String("replay", "", "replay file (a JSON case)")
	flag.Parse()
	if *out == "" {
		fmt.Fprintln(os.Stderr, "missing -out")
		os.Exit(2)
	}
	installHook()
	rng := rand.New(rand.NewSource(*seed))
	if *replay != "" {
		doReplay(*replay, *out)
		return
	}
	switch *prop {
	case "C19":
		genC19(*out, *tier, rng)
	default:
		fmt.Fprintln(os.Stderr, "unknown property", *prop)
		os.Exit(2)
	}
}

// doReplay re-runs the recorded actions of one case on the current implementation.
func doReplay(path, out string) {
	b, err := os.ReadFile(path)
	if err != nil {
		panic(err)
	}
	var rp struct {
		Case Case `json:"case"`
	}
	if err := json.Unmarshal(b, &rp); err != nil {
		panic(err)
	}
	sink := NewSink(out, 1000)
	// the runtime's choice at a select with two ready alternatives is random: repeat a few times
	for i := 0; i < 20; i++ {
		w := NewWorld(rp.Case.Threads)
		for _, a := range rp.Case.Prog {
			if a.Auto {
				continue // re-inserted by the harness when the hand-over happens again
			}
			w.Do(a)
		}
		c := Case{Tag: "replay", Threads: rp.Case.Threads, Prog: w.acts, Obs: w.obs}
		w.Close()
		sink.Add(c)
	}
	sink.Close("replay of one recorded schedule (20 repetitions)", false)
}

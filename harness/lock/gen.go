package main

import (
	"context"
	"fmt"
	"math/rand"
	"os"
	"runtime"
	"sync"
	"sync/atomic"
	"time"

	"github.com/fullstorydev/emulators/storage/gcsutil"
)

// POp is one call of a goroutine's program.
type POp struct {
	Kind   string // lock | unlock
	K      int
	IfHeld bool // unlock only: skipped unless the goroutine holds K (its Lock returned true)
}

func lockUnlock(k int) []POp { return []POp{{"lock", k, false}, {"unlock", k, true}} }

// Runner executes scheduler tokens against a World according to the goroutines' programs.
type Runner struct {
	w     *World
	progs [][]POp
	pi    []int
	fused bool // a token on a goroutine between calls performs the call and its first step
	cap   int
}

func NewRunner(progs [][]POp, fused bool) *Runner {
	return &Runner{w: NewWorld(len(progs)), progs: progs, pi: make([]int, len(progs)), fused: fused, cap: 400}
}

// next op of goroutine t (skipping conditional unlocks that do not apply), nil if the program is over
func (r *Runner) nextOp(t int) *POp {
	for r.pi[t] < len(r.progs[t]) {
		op := &r.progs[t][r.pi[t]]
		if op.Kind == "unlock" && op.IfHeld && r.w.gs[t].held != op.K {
			r.pi[t]++
			continue
		}
		return op
	}
	return nil
}

func (r *Runner) Finished(t int) bool { return !r.w.InCall(t) && r.nextOp(t) == nil }

func (r *Runner) AllFinished() bool {
	for t := range r.progs {
		if !r.Finished(t) {
			return false
		}
	}
	return true
}

// Step token: a token that targets a finished goroutine is skipped.
func (r *Runner) Step(t int) {
	if len(r.w.acts) >= r.cap {
		return
	}
	if r.w.InCall(t) {
		r.w.Do(Act{Kind: "step", T: t})
		return
	}
	op := r.nextOp(t)
	if op == nil {
		return
	}
	r.pi[t]++
	r.w.Do(Act{Kind: "call_" + op.Kind, T: t, K: op.K})
	if r.fused {
		r.w.Do(Act{Kind: "step", T: t})
	}
}

func (r *Runner) Cancel(t int) { r.w.Do(Act{Kind: "cancel", T: t}) }

// Drain runs the remaining goroutines to the end, lowest index first; a goroutine parked in the
// select is only stepped when nobody else can move.
func (r *Runner) Drain() {
	for len(r.w.acts) < r.cap {
		moved := false
		for t := range r.progs {
			if !r.Finished(t) && !r.w.KnownBlocked(t) {
				r.Step(t)
				moved = true
				break
			}
		}
		if moved {
			continue
		}
		// everybody left is parked in the select: record that once and stop
		for t := range r.progs {
			if !r.Finished(t) {
				r.Step(t)
			}
		}
		return
	}
}

func (r *Runner) Finish(tag string) Case {
	c := Case{Tag: tag, Threads: len(r.progs), Prog: r.w.acts, Obs: r.w.obs}
	r.w.Close()
	return c
}

// all interleavings of n0 tokens for goroutine 0 and n1 tokens for goroutine 1
func interleavings(n0, n1 int) [][]int {
	var out [][]int
	var rec func(a, b int, cur []int)
	rec = func(a, b int, cur []int) {
		if a == 0 && b == 0 {
			out = append(out, append([]int(nil), cur...))
			return
		}
		if a > 0 {
			rec(a-1, b, append(cur, 0))
		}
		if b > 0 {
			rec(a, b-1, append(cur, 1))
		}
	}
	rec(n0, n1, nil)
	return out
}

func genC19(out, tier string, rng *rand.Rand) {
	t0 := time.Now()
	sink := NewSink(out, 2500)
	extra := sink.stats.Extra

	// (1) exhaustive: 2 goroutines x 1 key x 1 round, every interleaving of the 6+6 internal steps
	// (L1 L2a L2b U1 U2 U3; the call itself is performed together with its first step), without
	// cancellation and with one cancellation of either goroutine inserted at every position.
	// Extra tokens (a goroutine parked in the select consumes one without moving) are made up by
	// the deterministic drain at the end.
	n := 0
	for _, seq := range interleavings(6, 6) {
		for variant := -1; variant < 2*(len(seq)+1); variant++ {
			cpos, ct := -1, 0
			if variant >= 0 {
				cpos, ct = variant/2, variant%2
			}
			r := NewRunner([][]POp{lockUnlock(0), lockUnlock(0)}, true)
			for i, t := range seq {
				if i == cpos {
					r.Cancel(ct)
				}
				r.Step(t)
			}
			if cpos == len(seq) {
				r.Cancel(ct)
			}
			r.Drain()
			tag := "exh2x1x1"
			if variant >= 0 {
				tag = "exh2x1x1+cancel"
			}
			sink.Add(r.Finish(tag))
			n++
		}
	}
	extra["exhaustive_schedules"] = n
	extra["exhaustive_subspace"] = "2 goroutines x 1 key x 1 round: all 924 interleavings of the 6+6 internal steps, each also with one cancellation of either goroutine at each of the 13 positions (the runtime's random choice at a select with two ready alternatives is sampled, not enumerated)"
	extra["exhaustive_s"] = time.Since(t0).Seconds()

	// (2) Unlock of a key that is not held (by the caller / by anybody)
	t1 := time.Now()
	{
		r := NewRunner([][]POp{{{"unlock", 0, false}}}, false)
		r.Drain()
		sink.Add(r.Finish("unheld"))
		r = NewRunner([][]POp{{{"unlock", 1, false}, {"lock", 1, false}, {"unlock", 1, true}, {"unlock", 1, false}}}, false)
		r.Drain()
		sink.Add(r.Finish("unheld"))
	}
	for _, seq := range interleavings(6, 3) {
		r := NewRunner([][]POp{lockUnlock(0), {{"unlock", 0, false}}}, true)
		for _, t := range seq {
			r.Step(t)
		}
		r.Drain()
		sink.Add(r.Finish("unheld2"))
	}
	for _, seq := range interleavings(6, 3) {
		// the waiter keeps an entry alive while nobody holds: goroutine 0 is cancelled early or late
		for _, cpos := range []int{0, 3, 6} {
			r := NewRunner([][]POp{lockUnlock(0), {{"unlock", 0, false}}}, true)
			for i, t := range seq {
				if i == cpos {
					r.Cancel(0)
				}
				r.Step(t)
			}
			r.Drain()
			sink.Add(r.Finish("unheld2+cancel"))
		}
	}
	extra["unheld_s"] = time.Since(t1).Seconds()

	// (3) random schedules: 3 goroutines x 2 keys x 2 rounds with cancellations, every action a
	// separate scheduling point (the call included)
	t2 := time.Now()
	nr := 3000
	if tier == "thorough" {
		nr = 60000
	}
	for i := 0; i < nr; i++ {
		progs := make([][]POp, 3)
		for t := range progs {
			for round := 0; round < 2; round++ {
				progs[t] = append(progs[t], lockUnlock(rng.Intn(2))...)
			}
		}
		pc := []float64{0, 0.02, 0.05, 0.1}[rng.Intn(4)]
		r := NewRunner(progs, false)
		for !r.AllFinished() && len(r.w.acts) < r.cap {
			if rng.Float64() < pc {
				r.Cancel(rng.Intn(3))
				continue
			}
			t := rng.Intn(3)
			if r.Finished(t) {
				continue
			}
			if r.w.KnownBlocked(t) {
				// stepping a goroutine parked in the select only re-observes "blocked"; do it sometimes
				others := false
				for u := range progs {
					if u != t && !r.Finished(u) && !r.w.KnownBlocked(u) {
						others = true
					}
				}
				if others && rng.Float64() < 0.8 {
					continue
				}
				if !others {
					// everybody left is parked: only a cancellation can help
					r.Step(t)
					r.Cancel(t)
					continue
				}
			}
			r.Step(t)
		}
		sink.Add(r.Finish("rand3x2x2"))
	}
	extra["random_schedules"] = nr
	extra["random_s"] = time.Since(t2).Seconds()

	// (4) free-running stress (the yield points let unregistered goroutines straight through): the
	// cooperative schedules only interleave at the yield points; windows between them are exercised
	// here, judged by the property itself (at most one holder per key, Lock's verdict truthful, no
	// panic on a held key's Unlock, no entry left behind)
	t3 := time.Now()
	dur := 1500 * time.Millisecond
	if tier == "thorough" {
		dur = 12 * time.Second
	}
	notes, ops := lockStress(dur, rng.Int63())
	churnNotes, churnOps := lockChurn(dur, rng.Int63())
	notes = append(notes, churnNotes...)
	notes = append(notes, lockMisuse(dur)...)
	extra["churn_lock_calls"] = churnOps
	patience := 6 * time.Second
	if tier == "thorough" {
		patience = 40 * time.Second
	}
	notes = append(notes, patientWaiters(patience)...)
	extra["patient_waiter_s"] = patience.Seconds()
	{
		r := NewRunner([][]POp{lockUnlock(0)}, false)
		r.Drain()
		c := r.Finish("stress")
		if len(c.Obs) > 0 {
			c.Obs[len(c.Obs)-1].Notes = append(c.Obs[len(c.Obs)-1].Notes, notes...)
		}
		sink.Add(c)
	}
	extra["stress_lock_calls"] = ops
	extra["stress_s"] = time.Since(t3).Seconds()
	extra["total_s"] = time.Since(t0).Seconds()
	sink.Close("a schedule counts as non-trivial when some action was observed blocked, some Lock returned false or some call panicked", false)
	fmt.Fprintf(os.Stderr, "C19: %d schedules (%d distinct, %d non-trivial), %d actions, %.1fs\n",
		sink.stats.Evaluations, sink.stats.Distinct, sink.stats.Nontrivial, sink.stats.Requests, time.Since(t0).Seconds())
}

// lockStress hammers one fresh lock map from many goroutines with short-lived, already-cancelled and
// generous contexts on two keys and reports what the property forbids.
func lockStress(d time.Duration, seed int64) ([]string, int64) {
	m := gcsutil.NewTransientLockMap()
	var holders [2]int32
	var calls int64
	var mu sync.Mutex
	var notes []string
	note := func(f string, a ...interface{}) {
		mu.Lock()
		if len(notes) < 5 {
			notes = append(notes, "stress: "+fmt.Sprintf(f, a...))
		}
		mu.Unlock()
	}
	stop := time.Now().Add(d)
	var wg sync.WaitGroup
	for g := 0; g < 12; g++ {
		wg.Add(1)
		go func(g int) {
			defer wg.Done()
			rng := rand.New(rand.NewSource(seed + int64(g)))
			for time.Now().Before(stop) {
				k := rng.Intn(2)
				key := fmt.Sprintf("k%d", k)
				// every context ends by itself after 20 ms at the latest, so that a map that leaks a lock
				// cannot make this loop wait for ever
				ctx, cancel := context.WithTimeout(context.Background(), 20*time.Millisecond)
				switch rng.Intn(4) {
				case 0:
					cancel() // already cancelled: Lock must say false and hold nothing
				case 1:
					go func() { time.Sleep(time.Duration(rng.Intn(200)) * time.Microsecond); cancel() }()
				}
				atomic.AddInt64(&calls, 1)
				if rng.Intn(3) == 0 {
					// the same through Run: the section runs iff nil is returned, under mutual exclusion
					ran := false
					err := m.Run(ctx, key, func(context.Context) error {
						ran = true
						if n := atomic.AddInt32(&holders[k], 1); n != 1 {
							note("%d callers are inside key %q at the same time (Run)", n, key)
						}
						if rng.Intn(2) == 0 {
							time.Sleep(time.Duration(rng.Intn(50)) * time.Microsecond)
						}
						atomic.AddInt32(&holders[k], -1)
						return nil
					})
					if (err == nil) != ran {
						note("Run(%q) returned %v but its section ran = %v", key, err, ran)
					}
					if err != nil && ctx.Err() == nil {
						note("Run(%q) failed (%v) although its context had not ended", key, err)
					}
					cancel()
					continue
				}
				ok := m.Lock(ctx, key)
				if !ok && ctx.Err() == nil {
					note("Lock(%q) returned false although its context had not ended", key)
				}
				if ok {
					if n := atomic.AddInt32(&holders[k], 1); n != 1 {
						note("%d callers hold key %q at the same time", n, key)
					}
					if rng.Intn(2) == 0 {
						time.Sleep(time.Duration(rng.Intn(50)) * time.Microsecond)
					}
					atomic.AddInt32(&holders[k], -1)
					func() {
						defer func() {
							if p := recover(); p != nil {
								note("Unlock of the held key %q panicked: %v", key, p)
							}
						}()
						m.Unlock(key)
					}()
				}
				cancel()
			}
		}(g)
	}
	wg.Wait()
	if n := m.VerifLen(); n != 0 {
		note("%d entries left in the map after every caller has finished", n)
	}
	return notes, atomic.LoadInt64(&calls)
}

// lockChurn: many goroutines over MANY keys with very short sections, so that keys are mostly absent
// when they are asked for: entries are created and evicted all the time, and callers race for keys
// that are just being created or evicted while other keys come and go (lockStress, with two hot keys,
// hardly ever meets an absent key). Judged like lockStress.
func lockChurn(d time.Duration, seed int64) ([]string, int64) {
	const nkeys = 6
	m := gcsutil.NewTransientLockMap()
	var holders [nkeys]int32
	var calls int64
	var mu sync.Mutex
	var notes []string
	note := func(f string, a ...interface{}) {
		mu.Lock()
		if len(notes) < 5 {
			notes = append(notes, "churn: "+fmt.Sprintf(f, a...))
		}
		mu.Unlock()
	}
	stop := time.Now().Add(d)
	var wg sync.WaitGroup
	for g := 0; g < 8; g++ {
		wg.Add(1)
		go func(g int) {
			defer wg.Done()
			rng := rand.New(rand.NewSource(seed + int64(g)))
			for n := 0; ; n++ {
				if n%64 == 0 && !time.Now().Before(stop) {
					return
				}
				k := rng.Intn(nkeys)
				key := fmt.Sprintf("c%d", k)
				ctx, cancel := context.WithTimeout(context.Background(), 20*time.Millisecond)
				atomic.AddInt64(&calls, 1)
				ok := m.Lock(ctx, key)
				if !ok && ctx.Err() == nil {
					note("Lock(%q) returned false although its context had not ended", key)
				}
				if ok {
					if n := atomic.AddInt32(&holders[k], 1); n != 1 {
						note("%d callers hold key %q at the same time", n, key)
					}
					if rng.Intn(4) == 0 {
						runtime.Gosched()
					}
					atomic.AddInt32(&holders[k], -1)
					func() {
						defer func() {
							if p := recover(); p != nil {
								note("Unlock of the held key %q panicked: %v", key, p)
							}
						}()
						m.Unlock(key)
					}()
				}
				cancel()
			}
		}(g)
	}
	wg.Wait()
	if n := m.VerifLen(); n != 0 {
		note("%d entries left in the map after every caller has finished", n)
	}
	return notes, atomic.LoadInt64(&calls)
}

// lockMisuse: callers that Unlock a key they do not hold (while its owner locks and unlocks it) may get
// a panic, and may at worst upset that key; the sole users of OTHER keys must never notice: their
// Lock succeeds, their Unlock does not panic.
func lockMisuse(d time.Duration) []string {
	m := gcsutil.NewTransientLockMap()
	var mu sync.Mutex
	var notes []string
	note := func(f string, a ...interface{}) {
		mu.Lock()
		if len(notes) < 5 {
			notes = append(notes, "misuse: "+fmt.Sprintf(f, a...))
		}
		mu.Unlock()
	}
	stop := time.Now().Add(d)
	var wg sync.WaitGroup
	quiet := func(f func()) {
		defer func() { _ = recover() }()
		f()
	}
	wg.Add(3)
	go func() { // the owner of "m"
		defer wg.Done()
		for time.Now().Before(stop) {
			ctx, cancel := context.WithTimeout(context.Background(), 5*time.Millisecond)
			if m.Lock(ctx, "m") {
				quiet(func() { m.Unlock("m") })
			}
			cancel()
		}
	}()
	for g := 0; g < 2; g++ { // unlock what they do not hold
		go func() {
			defer wg.Done()
			for time.Now().Before(stop) {
				quiet(func() { m.Unlock("m") })
			}
		}()
	}
	for g := 0; g < 6; g++ {
		wg.Add(1)
		go func(g int) {
			defer wg.Done()
			for n := 0; time.Now().Before(stop); n++ {
				key := fmt.Sprintf("j%d-%d", g, n%3) // fresh keys all the time: entries are created and evicted
				ctx, cancel := context.WithTimeout(context.Background(), time.Second)
				ok := m.Lock(ctx, key)
				cancel()
				if !ok {
					note("the only user of key %q could not lock it within a second", key)
					continue
				}
				func() {
					defer func() {
						if p := recover(); p != nil {
							note("Unlock of key %q by its only user and holder panicked: %v", key, p)
						}
					}()
					m.Unlock(key)
				}()
			}
		}(g)
	}
	wg.Wait()
	return notes
}

// patientWaiters: a Lock and a Run queued behind a holder with a context that never ends wait as long
// as it takes (here: [d]); they neither give up nor skip their section, and succeed once the holder
// lets go.
func patientWaiters(d time.Duration) []string {
	var notes []string
	m := gcsutil.NewTransientLockMap()
	bg := context.Background()
	if !m.Lock(bg, "pl") || !m.Lock(bg, "pr") {
		return []string{"patient: an uncontended Lock failed"}
	}
	lockRes := make(chan bool, 1)
	runRes := make(chan error, 1)
	var ran atomic.Bool
	go func() { lockRes <- m.Lock(bg, "pl") }()
	go func() { runRes <- m.Run(bg, "pr", func(context.Context) error { ran.Store(true); return nil }) }()
	timer := time.After(d)
	early := false
	for !early {
		select {
		case ok := <-lockRes:
			notes = append(notes, fmt.Sprintf("patient: Lock queued behind a holder returned %v although the key is still held and its context has not ended", ok))
			lockRes <- ok
			early = true
		case err := <-runRes:
			notes = append(notes, fmt.Sprintf("patient: Run queued behind a holder returned %v (section ran: %v) although the key is still held and its context has not ended", err, ran.Load()))
			runRes <- err
			early = true
		case <-timer:
			early = true
		}
	}
	m.Unlock("pl")
	m.Unlock("pr")
	select {
	case ok := <-lockRes:
		if ok {
			m.Unlock("pl")
		} else if len(notes) == 0 {
			notes = append(notes, "patient: Lock returned false after the holder let go although its context has not ended")
		}
	case <-time.After(5 * time.Second):
		notes = append(notes, "patient: the queued Lock did not return within 5 s of the holder letting go")
	}
	select {
	case err := <-runRes:
		if (err != nil || !ran.Load()) && len(notes) == 0 {
			notes = append(notes, fmt.Sprintf("patient: Run returned %v, section ran: %v, after the holder let go", err, ran.Load()))
		}
	case <-time.After(5 * time.Second):
		notes = append(notes, "patient: the queued Run did not return within 5 s of the holder letting go")
	}
	return notes
}

module veriflock

go 1.23.0

require github.com/fullstorydev/emulators/storage v0.0.0

require google.golang.org/protobuf v1.36.6 // indirect

replace github.com/fullstorydev/emulators/storage => /repo/storage

package main

import (
	"bytes"
	"context"
	"fmt"
	"os"
	"runtime"
	"strconv"
	"sync"
	"sync/atomic"
	"time"

	"github.com/fullstorydev/emulators/storage/gcsutil"
)

// Cooperative scheduler: real goroutines execute TransientLockMap.Lock/Unlock and park inside
// gcsutil.VerifYield before every internal step; the scheduler releases one goroutine for exactly
// one step at a time and observes where it ends up.

// Act is one scheduler action (the Coq type LockExec.action).
type Act struct {
	Kind string `json:"kind"` // call_lock | call_unlock | step | cancel
	T    int    `json:"t"`
	K    int    `json:"k"`
	Auto bool   `json:"auto,omitempty"` // step inserted by the harness right after a hand-over woke the goroutine
}

// Obs is what the harness saw of one action (the Coq type LockCheck.obs, plus diagnostics).
type Obs struct {
	Class string   `json:"class"` // stepped | blocked | true | false | done | panic
	Size  int      `json:"size"`  // len(l.locks) after the action
	Point string   `json:"point,omitempty"`
	Panic string   `json:"panic_msg,omitempty"`
	Notes []string `json:"notes,omitempty"`
}

type evKind int

const (
	evYield evKind = iota
	evRet
	evDone
	evPanic
)

type event struct {
	kind  evKind
	point string
	res   bool
	msg   string
}

type cmd struct {
	kind int // 0 = run one step, 1 = call lock, 2 = call unlock, 3 = quit
	k    int
}

type gstatus int

const (
	gBetween gstatus = iota // between calls (idle or holding)
	gParked                 // inside a call, parked at a yield point
	gBlocked                // inside a call, released into the select and parked there by the runtime
)

type gor struct {
	id      int
	goid    int64
	ctx     context.Context
	cancel  context.CancelFunc
	resume  chan cmd
	ev      chan event
	status  gstatus
	point   string // yield point the goroutine is parked at (gParked)
	op      string // current call: "lock" / "unlock"
	opKey   int
	held    int    // key held (Lock returned true, Unlock not finished), -1 if none
	pending *event // a blocked goroutine arrived somewhere asynchronously; to be attributed to its next step
	canc    bool
	first   bool // next yield is the first of the call
}

type World struct {
	m      *gcsutil.TransientLockMap
	gs     []*gor
	acts   []Act
	obs    []Obs
	free   atomic.Bool // goroutines run through the yield points without parking (cleanup)
	wg     sync.WaitGroup
	stuck  bool
	leaked bool
}

var (
	curWorld *World
	goidMap  sync.Map // goid -> *gor
	stackBuf = make([]byte, 1<<18)
)

func keyName(k int) string { return fmt.Sprintf("k%d", k) }

func curGoid() int64 {
	var b [64]byte
	n := runtime.Stack(b[:], false)
	// "goroutine 123 [running]:"
	s := b[:n]
	s = s[len("goroutine "):]
	i := bytes.IndexByte(s, ' ')
	id, _ := strconv.ParseInt(string(s[:i]), 10, 64)
	return id
}

// goState returns the scheduler state of a goroutine as printed by the runtime traceback
// ("running", "runnable", "select", "chan receive", ...), "" if it cannot be found.
// goState returns the runtime's wait state of a goroutine, but only if it is waiting INSIDE the lock
// map (a frame of package gcsutil on its stack, and not inside the harness hook): a goroutine that
// has not yet picked up its command, or is handing an event to the scheduler, is reported as
// "running" however long that takes on a loaded machine.
func goState(goid int64) string {
	n := runtime.Stack(stackBuf, true)
	needle := []byte(fmt.Sprintf("goroutine %d [", goid))
	s := stackBuf[:n]
	for {
		i := bytes.Index(s, needle)
		if i < 0 {
			return ""
		}
		if i == 0 || s[i-1] == '\n' {
			r := s[i+len(needle):]
			j := bytes.IndexAny(r, ",]")
			if j < 0 {
				return ""
			}
			state := string(r[:j])
			frames := r
			if end := bytes.Index(r, []byte("\n\n")); end >= 0 {
				frames = r[:end]
			}
			if !bytes.Contains(frames, []byte("storage/gcsutil.")) || bytes.Contains(frames, []byte("installHook")) {
				return "running"
			}
			return state
		}
		s = s[i+1:]
	}
}

var spinFor = 60 * time.Microsecond

func isWaitingState(st string) bool {
	switch st {
	case "", "running", "runnable", "syscall", "copystack", "preempted", "idle":
		return false
	}
	return true
}

func installHook() {
	gcsutil.VerifYield = func(point, key string) {
		v, ok := goidMap.Load(curGoid())
		if !ok {
			return
		}
		g := v.(*gor)
		w := curWorld
		if w == nil || w.free.Load() {
			return
		}
		g.ev <- event{kind: evYield, point: point}
		<-g.resume
	}
}

func NewWorld(n int) *World {
	w := &World{m: gcsutil.NewTransientLockMap()}
	curWorld = w
	for i := 0; i < n; i++ {
		ctx, cancel := context.WithCancel(context.Background())
		g := &gor{id: i, ctx: ctx, cancel: cancel, resume: make(chan cmd, 1), ev: make(chan event, 8), held: -1}
		w.gs = append(w.gs, g)
		ready := make(chan struct{})
		w.wg.Add(1)
		go func() {
			defer w.wg.Done()
			g.goid = curGoid()
			goidMap.Store(g.goid, g)
			defer goidMap.Delete(g.goid)
			close(ready)
			for c := range g.resume {
				switch c.kind {
				case 1:
					func() {
						defer func() {
							if r := recover(); r != nil {
								g.ev <- event{kind: evPanic, msg: fmt.Sprint(r)}
							}
						}()
						res := w.m.Lock(g.ctx, keyName(c.k))
						g.ev <- event{kind: evRet, res: res}
					}()
				case 2:
					func() {
						defer func() {
							if r := recover(); r != nil {
								g.ev <- event{kind: evPanic, msg: fmt.Sprint(r)}
							}
						}()
						w.m.Unlock(keyName(c.k))
						g.ev <- event{kind: evDone}
					}()
				case 3:
					return
				}
			}
		}()
		<-ready
	}
	return w
}

// await waits until goroutine g either reports an event or is parked by the runtime somewhere
// else (the select): blocked.  The goroutine state is read from the runtime's traceback, so a
// slow machine cannot turn a slow step into a "blocked" observation.
func (w *World) await(g *gor) (event, bool) {
	t0 := time.Now()
	for i := 0; ; i++ {
		select {
		case e := <-g.ev:
			return e, false
		default:
			runtime.Gosched()
		}
		if i%16 == 15 && time.Since(t0) > spinFor {
			break
		}
	}
	deadline := t0.Add(5 * time.Second)
	for {
		st := goState(g.goid)
		select {
		case e := <-g.ev:
			return e, false
		default:
		}
		if isWaitingState(st) {
			return event{}, true
		}
		if time.Now().After(deadline) {
			w.stuck = true
			return event{}, true
		}
		runtime.Gosched()
	}
}

// apply an arrived event to the bookkeeping of g and produce the observation
func (w *World) arrive(g *gor, e event) Obs {
	var o Obs
	switch e.kind {
	case evYield:
		g.status, g.point = gParked, e.point
		o.Class, o.Point = "stepped", e.point
		if g.first {
			g.first = false
			want := "L1"
			if g.op == "unlock" {
				want = "U1"
			}
			if e.point != want {
				o.Notes = append(o.Notes, fmt.Sprintf("first yield point of %s is %s, expected %s", g.op, e.point, want))
			}
		}
	case evRet:
		g.status = gBetween
		if e.res {
			o.Class = "true"
			g.held = g.opKey
		} else {
			o.Class = "false"
		}
	case evDone:
		g.status = gBetween
		o.Class = "done"
		if g.held == g.opKey {
			g.held = -1
		}
	case evPanic:
		g.status = gBetween
		o.Class, o.Panic = "panic", e.msg
	}
	return o
}

func (w *World) record(a Act, o Obs) {
	o.Size = w.m.VerifLen()
	if w.stuck {
		o.Notes = append(o.Notes, "a goroutine neither arrived at a yield point nor parked within 5 s")
		w.stuck = false
	}
	w.acts = append(w.acts, a)
	w.obs = append(w.obs, o)
}

// settle: after an action that may have woken goroutines parked in the select, wait until each of
// them has either reported where it went or is (still) parked by the runtime.
func (w *World) settle() {
	for _, b := range w.gs {
		if b.status != gBlocked || b.pending != nil {
			continue
		}
		e, blocked := w.await(b)
		if !blocked {
			ev := e
			b.pending = &ev
		}
	}
	// a goroutine that acquired the lock by hand-over holds the channel token from that moment on:
	// its step is recorded right here so that the model sees the acquisition in the same order
	for _, b := range w.gs {
		if b.status == gBlocked && b.pending != nil && b.pending.kind == evRet && b.pending.res {
			e := *b.pending
			b.pending = nil
			w.record(Act{Kind: "step", T: b.id, Auto: true}, w.arrive(b, e))
		}
	}
}

// poll: cheap variant of settle for actions that cannot wake anybody (no waiting).
func (w *World) poll() {
	woke := false
	for _, b := range w.gs {
		if b.status == gBlocked && b.pending == nil {
			select {
			case e := <-b.ev:
				ev := e
				b.pending = &ev
				woke = true
			default:
			}
		}
	}
	if woke {
		w.settle()
	}
}

func (w *World) anyBlocked() bool {
	for _, b := range w.gs {
		if b.status == gBlocked {
			return true
		}
	}
	return false
}

// Do performs one action; returns false if it does not apply in the current harness state (skipped).
func (w *World) Do(a Act) bool {
	if a.T < 0 || a.T >= len(w.gs) {
		return false
	}
	g := w.gs[a.T]
	switch a.Kind {
	case "call_lock", "call_unlock":
		if g.status != gBetween {
			return false
		}
		g.op, g.opKey, g.first = "lock", a.K, true
		c := cmd{kind: 1, k: a.K}
		if a.Kind == "call_unlock" {
			g.op = "unlock"
			c.kind = 2
		}
		g.resume <- c
		e, blocked := w.await(g)
		var o Obs
		if blocked {
			g.status = gBlocked
			o.Class = "blocked"
		} else {
			o = w.arrive(g, e)
		}
		w.record(Act{Kind: a.Kind, T: a.T, K: a.K}, o)
	case "step":
		switch g.status {
		case gBetween:
			return false
		case gParked:
			from := g.point
			g.resume <- cmd{kind: 0}
			e, blocked := w.await(g)
			var o Obs
			if blocked {
				g.status = gBlocked
				o.Class = "blocked"
			} else {
				o = w.arrive(g, e)
			}
			w.record(Act{Kind: "step", T: a.T}, o)
			if w.anyBlocked() {
				if from == "U2" {
					w.settle()
				} else {
					w.poll()
				}
			}
		case gBlocked:
			var o Obs
			if g.pending == nil {
				// cheap poll: nothing that could have woken it has happened unobserved
				select {
				case e := <-g.ev:
					o = w.arrive(g, e)
				default:
					o.Class = "blocked"
				}
			} else {
				e := *g.pending
				g.pending = nil
				o = w.arrive(g, e)
			}
			w.record(Act{Kind: "step", T: a.T}, o)
		}
	case "cancel":
		if g.canc {
			return false
		}
		g.canc = true
		g.cancel()
		w.record(Act{Kind: "cancel", T: a.T}, Obs{Class: "stepped"})
		if g.status == gBlocked {
			w.settle()
		}
	default:
		return false
	}
	return true
}

// InCall reports whether goroutine t is inside a call.
func (w *World) InCall(t int) bool { return w.gs[t].status != gBetween }

// KnownBlocked: parked in the select and nothing has been seen to wake it.
func (w *World) KnownBlocked(t int) bool { return w.gs[t].status == gBlocked && w.gs[t].pending == nil }

// Close lets every goroutine run to completion without parking and waits for them.
func (w *World) Close() {
	w.free.Store(true)
	for _, g := range w.gs {
		g.cancel()
	}
	for _, g := range w.gs {
		wait, gl := false, false
		switch {
		case g.status == gParked:
			g.resume <- cmd{kind: 0}
			wait = true
		case g.status == gBlocked && g.pending == nil:
			wait = true
		case g.status == gBlocked && g.pending.kind == evYield:
			g.resume <- cmd{kind: 0}
			wait = true
		}
		for wait {
			select {
			case e := <-g.ev:
				if e.kind == evYield {
					g.resume <- cmd{kind: 0}
				} else {
					wait = false
				}
			case <-time.After(5 * time.Second):
				// a goroutine that cannot finish even with its context cancelled: leak it
				fmt.Fprintln(os.Stderr, "harness: goroutine did not finish during cleanup")
				goidMap.Delete(g.goid)
				w.leaked = true
				gl = true
				wait = false
			}
		}
		if !gl {
			g.resume <- cmd{kind: 3}
		}
	}
	if !w.leaked {
		w.wg.Wait()
	}
	curWorld = nil
}

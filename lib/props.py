"""Registry of the claimed properties and the matchers of the known findings."""

GCS_TRUST = [
    "modelled, not verified: net/http, encoding/json, mime/multipart, gzip, MD5, google/btree, the filesystem, time.Now (assumed strictly increasing between successive writes)",
    "the name check in front of the handlers (GCS/Wire.v: a new object name that is not valid UTF-8 is refused) is applied by every checker to the program before the handler model runs; unicode/utf8.ValidString is modelled by Common/Utf8.v (RFC 3629 ranges) and validated by the correspondence on the generated invalid names only; names carried in JSON bodies are assumed to reach the handler as valid UTF-8 (encoding/json replaces invalid bytes by U+FFFD)",
]

BT_TRUST = [
    "modelled, not verified: protobuf codecs, gRPC, goleveldb, google/btree, RE2 (binaryregexp) on the generated pattern subset",
]

PROPS = {
    "C04": dict(harness="gcs", trusted=GCS_TRUST,
                oracle_codes={1: "unparsable precondition not answered 400", 2: "operation performed although a supplied precondition does not hold",
                              3: "operation refused although every supplied precondition holds", 4: "failure code outside the allowed set"},
                assumptions=["generation numbers compared by rank, not by value",
                             "store clock strictly increasing between successive writes"]),
    "C02": dict(harness="gcs", trusted=GCS_TRUST, assumptions=["generation numbers compared by rank"]),
    "C07": dict(harness="gcs", trusted=GCS_TRUST + ["the per-object lock is an atomic acquire/release (justified by C19); the Go scheduler and memory model are not modelled; preemption is exhibited only at the instrumented yield points"],
                assumptions=["blocking on the object lock is observed through the runtime's goroutine wait state (select inside countedLock.Lock)"]),
    "C09": dict(harness="gcs", trusted=GCS_TRUST, assumptions=["file mtime (generation) strictly increases between successive writes", "pending resumable uploads are per-instance session state"]),
    "C10": dict(harness="gcs", trusted=GCS_TRUST, assumptions=["store clock strictly increasing between successive writes (collisions are measured and reported)"]),
    "C11": dict(harness="gcs", trusted=GCS_TRUST, assumptions=["page tokens compared by the name they decode to"],
                oracle_codes={1: "a complete pagination does not yield exactly the matching names once, in order", 2: "collapsed prefixes of a complete pagination are not exactly the distinct prefixes, once", 3: "a page holds more than maxResults entries", 4: "a listing of a bucket that does not exist is not answered 404"}),
    "C15": dict(harness="gcs", trusted=GCS_TRUST, assumptions=["generation numbers compared by rank"]),
    "C06": dict(harness="bt", trusted=BT_TRUST + ["sync.RWMutex, the Go scheduler and memory model are not modelled: a lock is an atomic acquire/release; preemption is exhibited only at the instrumented yield points"],
                assumptions=["blocking is observed through the runtime's goroutine wait state (stack frame in sync.RWMutex)"]),
    "C01": dict(harness="bt", trusted=BT_TRUST, assumptions=["server clock and sample coins are inputs"]),
    "C03": dict(harness="bt", trusted=BT_TRUST, assumptions=["server clock and sample coins are inputs"]),
    "C05": dict(harness="bt", trusted=BT_TRUST, assumptions=["server clock and sample coins are inputs"]),
    "C12": dict(harness="bt", trusted=BT_TRUST, assumptions=["server clock and sample coins are inputs"]),
    "C13": dict(harness="bt", trusted=BT_TRUST, assumptions=["server clock and sample coins are inputs"]),
    "C14": dict(harness="bt", trusted=BT_TRUST, assumptions=["server clock and sample coins are inputs"]),
    "C16": dict(harness="bt", trusted=BT_TRUST, assumptions=["server clock and sample coins are inputs"]),
    "C17": dict(harness="bt", trusted=BT_TRUST, assumptions=["server clock and sample coins are inputs"]),
    "C08": dict(harness="bt", trusted=BT_TRUST + ["goleveldb's journal/recovery; rename is atomic; a point-in-time copy of the directory through the OS is what a killed process leaves (no power loss)"],
                assumptions=["crash = process kill: data handed to the OS survives"],
                oracle_codes={1: "a server started on the image taken after an acknowledged request does not serve the acknowledged state", 2: "a server started on the image taken at a crash point inside a request serves neither the state before nor the state after it"}),
    "C18": dict(harness="bt", trusted=BT_TRUST + ["goleveldb's iterator snapshot guarantee; sync.RWMutex and the Go scheduler (preemption exhibited only at the instrumented hand-over point)"],
                assumptions=["blocking is observed through the runtime's goroutine wait state"]),
    "C19": dict(harness="lock", trusted=["Go channel and sync.Mutex semantics are the model's rules by construction (a blocked sender is woken when the slot frees; select picks any ready case)"],
                assumptions=["blocking in the select is observed through the runtime's goroutine wait state", "the runtime's choice at a both-ready select is sampled, not forced"],
                oracle_codes={1: "two holders of one key", 2: "map entry left at quiescence", 3: "Lock returned false without a cancellation", 4: "the holder's own Unlock panicked", 5: "Unlock of a never-held key returned normally"}),
    "C20": dict(harness=["gcs", "bt"], race=True, harness_timeout=1500,
                trusted=GCS_TRUST + BT_TRUST + ["the Go race detector (dynamic, schedule dependent)", "HTTP/protobuf parsing is library code: raw perturbations have no Layer A model and are judged by the oracle only"],
                assumptions=["a hang is a request that does not return within the watchdog time", "race reports depend on the schedules the runtime happened to produce"]),
}


def _has_zero_cond(case, step, code=None):
    """GCS-7: a literal 0 for a parameter other than ifGenerationMatch is treated as absent."""
    for r in case["prog"]:
        cp = r.get("cp") or []
        for i, p in enumerate(cp):
            if i > 0 and p.get("kind") == "raw" and p.get("raw") in ("0", "+0", "-0", "00"):
                return True
    return False


def _segs_order_differs(names):
    ns = sorted(set(names), key=lambda n: n.encode("utf-8"))
    return sorted(ns, key=lambda n: [x.encode("utf-8") for x in n.split("/")]) != ns


def _delim_listing(case, step, code=None):
    """GCS-1: listing with a delimiter; the token comes from the last item."""
    r = case["prog"][step]
    return r.get("kind") == "list" and r.get("delim", "") != ""


def _file_order(case, step, code=None):
    """GCS-2: file store, names whose per-directory walk order differs from bytewise order."""
    if case.get("store") != "file":
        return False
    names = [r.get("n") or (r.get("up") or {}).get("name") for r in case["prog"][:step]
             if r.get("kind") in ("upload_media", "upload_multipart", "resumable_init", "compose")]
    names += [r.get("n2") for r in case["prog"][:step] if r.get("kind") == "copy"]
    return _segs_order_differs([n for n in names if n])


def _file_add_mixture(case, step, code=None):
    """GCS-10: the file store's Add is three file operations; a lock-free reader in between."""
    return case.get("tag") == "file-add-mixture" and case.get("store") == "file"


def _disk_flat(case):
    out = []
    for seg in case.get("segs", []):
        for c, o in zip(seg["prog"], seg["obs"]):
            out.append((c["req"], o))
    return out


def _deleted_table_before(case, step, code=None):
    """BT-12: a successful DeleteTable at or before the failing step (its files stay on disk)."""
    flat = _disk_flat(case)
    return any(r.get("kind") == "delete" and o["resp"].get("code", 0) == 0 for r, o in flat[:step + 1])


def _drop_family_crash(case, step, code=None):
    """BT-18: crash point inside a ModifyColumnFamilies that drops a family."""
    flat = _disk_flat(case)
    if step >= len(flat) or code != 2:
        return False
    r = flat[step][0]
    return r.get("kind") == "modify" and any(m.get("kind") == "drop" for m in r.get("mods", []))


def _weird_table_id(case, step, code=None):
    """BT-16: table id the filesystem rejects, disk engine."""
    return case.get("tag") == "weird-table-id" and case.get("store") == "leveldb-disk"


def _dropall_under_scan(case, step, code=None):
    """BT-17: DropRowRange(all) closes the DB under a scan parked at its hand-over."""
    return case.get("tag") == "dropall-under-scan"


def _public_url_fragment(case, step, code=None):
    """GCS-8: public URL of a name containing an API path fragment."""
    if case.get("tag") != "public-roundtrip":
        return False
    n = case["prog"][0].get("n", "")
    import re
    return bool(re.search(r"(^|/)b/[^/]+/o(/|$)", n)) or "storage/v1/b" in n


KNOWN_MATCHERS = {
    "GCS-8": _public_url_fragment,
    "BT-16": _weird_table_id,
    "BT-17": _dropall_under_scan,
    "BT-12": _deleted_table_before,
    "BT-18": _drop_family_crash,
    "GCS-10": _file_add_mixture,
    "GCS-1": _delim_listing,
    "GCS-2": _file_order,
    "GCS-7": _has_zero_cond,
}


_CORR = " The model is tied to the code on every run: the Go harness executes generated and enumerated request programs on the real implementation built from /repo's working tree, and the model is evaluated on the same programs inside Coq (vm_compute); any difference in a property-relevant observable is reported with the program as replay."
_NOTE = "Trusted: Coq 8.16.1 kernel and vm_compute; the Go harness (builders, decoders, canonicalisation); tools/goconsts; the models of library code named in the evidence file (protobuf/JSON codecs, RE2, goleveldb, btree, net/http, filesystem, clocks). Sampled programs bound the correspondence, not the theorems."

TEXT = {
 "C01": dict(technique="Coq refinement proof (mutation semantics vs cell-map spec, row invariant) + differential correspondence on random programs, 3 engines",
             level="Theorems about the executable model of applyMutations/scrubRow/updateRow/ReadRows: the row invariant (families once, columns ascending, cells strictly descending, nothing empty) is preserved by every request, and each mutation refines the Bigtable cell-map semantics for all rows, mutation lists and clocks." + _CORR, note=_NOTE),
 "C02": dict(technique="Coq proof (resumable assembly invariant, frame lemmas over the handler model, the file store's name-to-files mapping keeps different objects' files apart, stored names are non-empty valid UTF-8) + differential correspondence on random histories, both stores, and on the files Add creates for an exhaustive small name universe",
             level="Theorems about the handler model: a resumable session consistent with payload P keeps a prefix of P and completes with exactly P for every chunking/re-send/status-query sequence; upload-then-get, bad-MD5-keeps-previous, delete-makes-absent and other-objects-untouched for all states." + _CORR, note=_NOTE),
 "C03": dict(technique="Coq proof (range merge = set union, sorted/disjoint, scan exactness) + exhaustive RowSet enumeration over the adversarial key universe, 3 engines",
             level="Theorems about mergeRowRanges/mergeSimpleRanges and the scan: the merged ranges denote exactly the union of the requested keys and ranges for ALL range lists, the scan returns each qualifying row once in key order, limits take the first N rows with output." + _CORR, note=_NOTE),
 "C04": dict(technique="Coq proof (truth-table equivalence, frame theorem over all handlers) + complete enumeration of the condition table by vm_compute correspondence",
             level="Theorems about parseConds/validateConds and every handler model: the code's truth table equals 'every supplied precondition holds' for all values and object states (guarded; the excluded case is refuted by a witness = finding GCS-7), failure codes lie in the allowed set, errors leave all objects untouched. Correspondence: the complete 4-parameter x 6-value x 4-state x 7-operation x 2-store table plus random histories, with a model-independent oracle on the observed responses." + _CORR, note=_NOTE),
 "C05": dict(technique="Coq proof (regex matcher correctness, filter evaluator vs denotational filter semantics) + differential correspondence on generated filter trees and on the exhaustive set of leaves, boundary leaves and depth-2 compositions of a 24-leaf basis, 3 engines",
             level="Theorems about the filter model: the derivative matcher decides the regular language; the evaluator refines the cell-list semantics of every supported filter; invalid arguments are rejected by the validator for all trees." + _CORR, note=_NOTE),
 "C06": dict(technique="Coq proof (interleaving model: every schedule equals the serial execution of the critical sections in acquisition order; failure atomicity of the write handlers) + exhaustive two-request interleavings driven through yield hooks on the real server, 3 engines",
             level="Theorems about the interleaving model of the table lock (any number of threads, any schedule): the lock invariant, equality of every scheduled run with the serial run in acquisition order (responses included), real-time order, and failure atomicity of MutateRow / MutateRows entries / CheckAndMutateRow / ReadModifyWriteRow for every position of an invalid mutation. Correspondence: all interleavings of two requests at the instrumented yield points are executed on real goroutines and compared step by step (parked / blocked / returned + response), then a full read." + _CORR, note=_NOTE + " The Go scheduler, sync.RWMutex and the memory model are assumptions; preemption is exhibited only at hook points."),
 "C07": dict(technique="Coq proof over the interleaving model (per-object lock; every schedule equals a serial execution per object) + exhaustive two-request interleavings (GETs preempted between store read and answer) driven through yield hooks on the real handlers, abandoned-request scenarios judged by an oracle, both stores",
             level="Theorems about the interleaving model of the handlers (any number of threads, any schedule): the lock invariant, store effects on one object equal a serial order consistent with real time, of N writers conditioned on one generation or on non-existence exactly one succeeds, a metageneration-conditioned patch applies only to a matching state, no update is lost; memory-store reads return one committed version. The file store's three-step Add seen by a lock-free reader is refuted by a schedule (finding GCS-10). Correspondence: all interleavings of two requests at the yield point between precondition check and store mutation are executed on real goroutines and compared step by step, then the final state." + _CORR, note=_NOTE + " The object lock is atomic by C19; the Go scheduler and memory model are assumptions."),
 "C08": dict(technique="Coq proof over a disk-effect model (images at every crash point, restart function): durability and crash atomicity for all programs + point-in-time directory images at every request boundary and crash hook restarted on the real engine",
             level="Theorems about the disk model of the leveldb disk engine (definition files written as temp + rename, one leveldb directory per table, DeleteTable removing definition then directory, Create clearing a leftover directory first, Clear as one atomic batch): for every state reachable by requests, clean restarts and kills at crash points (leftover directories with rows included) the server restarted on the image after an acknowledged request serves the acknowledged state, and the image at every crash point inside metadata persistence, create and delete restarts to the state before or after the request — with one exception refuted by a witness and recorded as a finding (BT-18: drop-family purge before persistence). Correspondence: real directory images at every request boundary and crash hook are started as second servers and compared with the model's restart; program segments are separated by clean restarts or by kills at a crash point of the last request, the next segment carrying on from that image." + _CORR, note=_NOTE + " goleveldb recovery, rename atomicity and 'kill -9 = OS-level image' are assumptions; power loss is out of scope."),
 "C09": dict(technique="Coq proof (file-store walk model lists exactly what the memory-store walk lists, hence equal answers for all request histories; the name-to-files mapping keeps different objects' content files and sidecars apart) + paired differential correspondence (both stores against their models) with a restart probe at request boundaries",
             level="One handler model serves both stores and differs only in the listing walk (the file store's walk also meets the directory entries that lead to each name); theorems show that the two walks list the same for every delimiter, cursor, prefix and page size, hence that whole request histories are answered identically by both stores (the former filepath.Walk order, GCS-2, is kept as a refuted witness of what the repair changed). Correspondence: each program runs on both real stores against the corresponding model; on the file store a fresh emulator instance on the same directory must answer like the running one at request boundaries; a sidecar-less content file must be served." + _CORR, note=_NOTE),
 "C10": dict(technique="Coq invariant proof (generation counter monotone, metageneration laws) + differential correspondence on random histories and on all interleavings of a patch with a second writer of the object, both stores",
             level="Theorems over all histories of the handler model with the store clock as a strictly increasing counter: every content write gets a generation above everything handed out before and metageneration 1; a patch bumps only metageneration; reads and failures change nothing." + _CORR, note=_NOTE + " Assumes the stores' wall clock strictly increases between successive writes."),
 "C11": dict(technique="Coq proof (pagination complete/duplicate-free/sorted with and without delimiter; early-exit soundness) + exhaustive enumeration of name-universe subsets x prefixes x delimiters x page sizes with a whole-pagination oracle, both stores",
             level="Theorems about the listing walk: with an ascending walk order the prefix abort and cursor skip lose nothing, a page holds at most maxResults items and collapsed prefixes, and following the tokens from the empty cursor yields exactly the matching names and exactly the distinct collapsed prefixes, each once and in order, for every prefix, delimiter and page size, on every state reachable from the empty store (no stored object has the empty name) and on both stores (the file store's walk lists what the memory store's walk lists); what the former token rule (GCS-1) and the former walk order (GCS-2) did is kept as refuted witnesses. The oracle independently checks every complete pagination of the enumerated name sets against the API semantics." + _CORR, note=_NOTE),
 "C18": dict(technique="Coq proof over the interleaving model (scan = read-locked sections over one snapshot per range) + forced schedules at every hand-over of real multi-message scans, both leveldb engines",
             level="Theorems about the interleaving model of a ReadRows scan that gives up the table lock while streaming, for all schedules and any number of writers: every returned row is the row's value in the snapshot taken when its range scan started (a state that existed between scan start and end, never a mixture), rows come in strictly ascending order without duplicates, rows not written during the scan are returned as stored, and the scan ends OK. Correspondence: real scans spanning several messages are parked at every hand-over while writers, deleters and read-modify-writes act on rows before/at/after the scan position; every step and the returned rows are compared with the model." + _CORR, note=_NOTE + " goleveldb's snapshot guarantee, sync.RWMutex and the Go scheduler are assumptions; DropRowRange (all rows / by prefix) under a parked scan is part of the schedules since the repair of BT-17."),
 "C20": dict(technique="Coq proof (every error answer of both handler models leaves the stored data untouched) + oracle-judged structured perturbation of HTTP and gRPC requests (incl. well-formed requests with degenerate names and absurd sizes), forced schedules, and concurrent mixes under the Go race detector; the death of the process hosting the emulator is itself reported as a violation",
             level="Only part of this property is within reach of a proof: theorems state that in both handler models every request answered with an error leaves all stored data unchanged (for all states and requests), and the model comparison pins the status of degenerate requests. Panics inside library code, fatal runtime errors, data races and hangs cannot be expressed by an executable model; they are exhibited dynamically: thousands of perturbed HTTP requests (incl. batch wrapping) and degenerate gRPC requests judged by an oracle (returns, valid status, JSON error envelope, one batch sub-response per part, seeded data intact), a forced schedule for the scan/clear hazard (BT-17, repaired), and concurrent admin+data mixes under the race detector. Labelled partial." + _CORR, note=_NOTE + " The race detector only sees the schedules that occurred."),
 "C19": dict(technique="Coq invariant proof over an executable small-step model (any number of goroutines, keys, steps, cancellations) + step-by-step correspondence through yield hooks, exhaustive for 2 goroutines x 1 key, + a free-running stress phase (Lock, Unlock and Run) judged by the property itself",
             level="Theorems for every reachable state of the step model of TransientLockMap/countedLock (any number of threads and keys, any schedule, any cancellations): the inductive invariant, mutual exclusion, Lock returns true iff it acquired, a cancelled Lock holds nothing and changes no channel, no lost wake-up, independence of keys, Unlock of an unheld key panics with the state unchanged, no leak at quiescence, no deadlock. Correspondence: real goroutines are stepped through yield points at each internal step; outcome class and map size after every action are compared with the model (either select choice accepted where both are ready) and with a model-independent oracle." + _CORR, note=_NOTE + " Go channel/mutex semantics are the model's rules; the runtime's select choice is sampled."),
 "C12": dict(technique="Coq proof (branch selection of CheckAndMutateRow vs filter semantics) + differential correspondence incl. all interleavings of a CheckAndMutateRow with a second write to the row, 3 engines",
             level="Theorems about the CheckAndMutateRow model: predicate_matched iff the predicate filter yields a cell on the current row, exactly the selected mutation list is applied with MutateRow semantics, errors leave the row unchanged." + _CORR, note=_NOTE),
 "C13": dict(technique="Coq proof (big-endian codec round trip, rule fold vs spec, wrap-around) + differential correspondence incl. all interleavings of a ReadModifyWriteRow with a second write to the row, 3 engines",
             level="Theorems about the ReadModifyWriteRow model: be64 round trip, increments wrap at 64 bits, rules apply in order to the newest cell, timestamp = max(server ms, previous), failure atomicity." + _CORR, note=_NOTE),
 "C14": dict(technique="Coq proof (registry laws, atomic family modification, exact prefix drop) + differential correspondence on admin/data programs, 3 engines",
             level="Theorems about the admin handlers' model: create/get/list/delete laws, ModifyColumnFamilies applies all modifications or none, dropping a family removes exactly its cells, DropRowRange removes exactly the keys with the prefix." + _CORR, note=_NOTE),
 "C15": dict(technique="Coq proof (compose = concatenation, bounds, copy clones) + differential correspondence on random histories and on all interleavings of a compose / copy with a second writer of the object, both stores",
             level="Theorems about the compose/copy handler models for all source lists and states." + _CORR, note=_NOTE),
 "C16": dict(technique="Coq proof (applyGC = filter of non-condemned cells; pass touches nothing else) + differential correspondence with forced GC passes, 3 engines",
             level="Theorems about applyGC and the GC pass model for all rule trees, cell lists and clocks; schedule part (hand-over) by the section/mutex model." + _CORR, note=_NOTE),
 "C17": dict(technique="one Coq model for all engines + pairwise differential correspondence of the three engines on every program",
             level="A single ordered-map model of the Rows interface; every generated program runs on the btree, in-memory leveldb and on-disk leveldb engines and each is compared with the same model (hence pairwise)." + _CORR, note=_NOTE),
}

"""Registry of the claimed properties and the matchers of the known findings."""

GCS_TRUST = [
    "modelled, not verified: net/http, encoding/json, mime/multipart, gzip, MD5, google/btree, the filesystem, time.Now (assumed strictly increasing between successive writes)",
]

BT_TRUST = [
    "modelled, not verified: protobuf codecs, gRPC, goleveldb, google/btree, RE2 (binaryregexp) on the generated pattern subset",
]

PROPS = {
    "C04": dict(harness="gcs", trusted=GCS_TRUST,
                oracle_codes={1: "unparsable precondition not answered 400", 2: "operation performed although a supplied precondition does not hold",
                              3: "operation refused although every supplied precondition holds", 4: "failure code outside the allowed set"},
                assumptions=["generation numbers compared by rank, not by value",
                             "store clock strictly increasing between successive writes"]),
    "C02": dict(harness="gcs", trusted=GCS_TRUST, assumptions=["generation numbers compared by rank"]),
    "C10": dict(harness="gcs", trusted=GCS_TRUST, assumptions=["store clock strictly increasing between successive writes (collisions are measured and reported)"]),
    "C15": dict(harness="gcs", trusted=GCS_TRUST, assumptions=["generation numbers compared by rank"]),
    "C01": dict(harness="bt", trusted=BT_TRUST, assumptions=["server clock and sample coins are inputs"]),
    "C03": dict(harness="bt", trusted=BT_TRUST, assumptions=["server clock and sample coins are inputs"]),
    "C05": dict(harness="bt", trusted=BT_TRUST, assumptions=["server clock and sample coins are inputs"]),
    "C12": dict(harness="bt", trusted=BT_TRUST, assumptions=["server clock and sample coins are inputs"]),
    "C13": dict(harness="bt", trusted=BT_TRUST, assumptions=["server clock and sample coins are inputs"]),
    "C14": dict(harness="bt", trusted=BT_TRUST, assumptions=["server clock and sample coins are inputs"]),
    "C16": dict(harness="bt", trusted=BT_TRUST, assumptions=["server clock and sample coins are inputs"]),
    "C17": dict(harness="bt", trusted=BT_TRUST, assumptions=["server clock and sample coins are inputs"]),
}


def _has_zero_cond(case, step):
    """GCS-7: a literal 0 for a parameter other than ifGenerationMatch is treated as absent."""
    for r in case["prog"]:
        cp = r.get("cp") or []
        for i, p in enumerate(cp):
            if i > 0 and p.get("kind") == "raw" and p.get("raw") in ("0", "+0", "-0", "00"):
                return True
    return False


KNOWN_MATCHERS = {
    "GCS-7": _has_zero_cond,
}

#!/usr/bin/env python3
"""Regenerates MANIFEST.json from the property registry (lib/props.py) and the texts below."""
import json, os, subprocess, sys
ROOT = os.path.dirname(os.path.dirname(os.path.abspath(__file__)))
sys.path.insert(0, os.path.join(ROOT, "lib"))
from props import PROPS, TEXT  # noqa

ALL = ["C%02d" % i for i in range(1, 21)]
hooks = []
try:
    log = subprocess.check_output(["git", "-C", "/repo", "log", "--format=%H %s"]).decode().splitlines()
    hooks = [l.split()[0] for l in log if l.split(" ", 1)[1].startswith("verif hooks")]
except Exception:
    pass

checks = []
for pid in ALL:
    if pid not in PROPS:
        continue
    t = TEXT[pid]
    checks.append({
        "property_id": pid,
        "quick_cmd": "./check %s quick" % pid,
        "thorough_cmd": "./check %s thorough" % pid,
        "evidence_file": "evidence/%s.json" % pid,
        "replay_cmd_template": "./check %s --replay {path}" % pid,
        "engine": "coq",
        "technique": t["technique"],
        "level_claimed": {"category": "proof", "text": t["level"], "design_ref": "DESIGN.md section 5 " + pid},
        "level_note": t["note"],
    })
na = [{"property_id": p, "reason": "check not built yet (construction in progress; see DESIGN.md section 11)"} for p in ALL if p not in PROPS]
m = {
    "version": 1,
    "setup_cmd": "./check setup",
    "hooks": {"guard": "verif",
              "enable": "go build -tags verif (harness modules under /verif/harness replace the emulator modules with /repo's working tree)",
              "baseline_off_cmd": "./check baseline-off", "source_commits": hooks, "add_only": True},
    "engines": [
        {"name": "coq", "path": "coq", "serves_properties": [c["property_id"] for c in checks], "kind_free_text": "Coq 8.16.1 development: executable models (Layer A), abstract specs (Layer B), theorems (theories/Props)"},
        {"name": "harness-gcs", "path": "harness/gcs", "serves_properties": [p for p in PROPS if PROPS[p]["harness"] == "gcs"], "kind_free_text": "Go harness: runs request programs on the real gcsemu handlers (both stores), prints programs + canonical observations as Gallina literals"},
        {"name": "harness-bt", "path": "harness/bt", "serves_properties": [p for p in PROPS if PROPS[p]["harness"] == "bt"], "kind_free_text": "Go harness: runs request programs on the real bttest service (three engines) through the verif hook, decodes chunk streams, prints Gallina literals"},
        {"name": "harness-lock", "path": "harness/lock", "serves_properties": [p for p in PROPS if PROPS[p]["harness"] == "lock"], "kind_free_text": "Go harness: cooperative scheduler stepping real goroutines through the lock map's yield points"},
        {"name": "goconsts", "path": "tools/goconsts", "serves_properties": [c["property_id"] for c in checks], "kind_free_text": "go/ast extractor regenerating Gen/Consts.v from /repo on every run"},
    ],
    "checks": checks,
    "not_applicable": na,
    "notes": "All checks: ./check <id> <tier>; see DESIGN.md. known_findings.json lists recorded and repaired defects.",
}
json.dump(m, open(os.path.join(ROOT, "MANIFEST.json"), "w"), indent=1)
print("MANIFEST.json: %d checks, %d not yet built" % (len(checks), len(na)))
